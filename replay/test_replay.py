"""Plain unit-test form of recorded counterexamples: every file in evidence/replay (or in the directory named by
REPLAY_DIR) is re-executed without the explorer; the test fails if the violation is still present.

run: cd /verif && PYTHONPATH=/verif /venv/bin/python -m pytest -q -p no:cacheprovider replay/test_replay.py
"""
import glob
import importlib
import json
import os

import pytest

VERIF = os.path.dirname(os.path.dirname(os.path.abspath(__file__)))
FILES = sorted(glob.glob(os.path.join(os.environ.get('REPLAY_DIR', os.path.join(VERIF, 'evidence', 'replay')), '*.json')))


@pytest.mark.parametrize('path', FILES or [None])
def test_replay(path):
    if path is None:
        pytest.skip('no recorded counterexamples')
    from mc import common
    common.setup_kyupy()
    rec = json.load(open(path))
    prop = os.path.basename(path).split('-')[0]
    mod = importlib.import_module('checks.' + prop.lower())
    still = [v for v in mod.replay(rec['case']) if v['key'] == rec['key']]
    assert not still, f'{rec["key"]}: {still[0]["msg"][:500]}'
