import importlib
import sys

from mc import common


def main():
    if len(sys.argv) < 2:
        print('usage: check <property id> [--tier quick|thorough] [--replay file]'); return 2
    prop = sys.argv[1]
    mod = importlib.import_module('checks.' + prop.lower())
    return common.main(mod, sys.argv[2:])


if __name__ == '__main__':
    sys.exit(main())
