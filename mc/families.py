"""Circuit families, all enumerated by nested loops in a fixed order (simplest first).

T1 single gate, T2 two-gate composition, T3 structural (reduced kind set), T4 fixed deep shapes.
Every generator yields NL objects (mc.netlist).
"""
import itertools

from .netlist import NL, well_formed
from . import ref

ALIAS_KINDS = ['not', 'inv', 'ibuf', 'buf', 'nbuf', 'delln', 'isolor', 'tieh', 'tiel', '__const0__', '__const1__',
               'and', 'or', 'nand', 'nor', 'xor', 'xnor', 'NBUFFX2', 'INVX4', 'IBUFFX2_RVT', 'DELLN1X2']

ARITY = {}
for _k in ref.PRIMITIVES_33:
    _f, _s = ref.family(_k)
    ARITY[_k] = 1 if _s == 'unary' else (int(_k[-1]) if _s == 'var' else _s)


def operand_tuples(kind, sources):
    """All operand tuples for a kind over sources+[None] that are in the arity convention
    (variadic gates of arity >= 3 have their last pin connected; see mc/ref.effective_operands)."""
    fam, shape = ref.family(kind)
    src = list(sources) + [None]
    if shape == 'unary':
        if kind.lower().startswith(('__const', 'tie')):
            yield (); return
        for a in src: yield (a,)
        return
    if shape == 'var2':
        yield from itertools.product(src, repeat=2); return
    if shape == 'var':
        digits = kind[-1]
        ns = [int(digits)] if digits.isdigit() else [2, 3, 4]
        for n in ns:
            for t in itertools.product(src, repeat=n):
                if n >= 3 and t[-1] is None: continue
                yield t
        return
    yield from itertools.product(src, repeat=shape)


def t1(kinds=None, n_in=4):
    """Single gate of every kind x every operand tuple over the inputs and None, output observed;
    plus a variant where the gate's output dangles next to an observed buffer."""
    kinds = kinds or (ref.PRIMITIVES_33 + ALIAS_KINDS)
    ins = [f'i{k}' for k in range(n_in)]
    for kind in kinds:
        for ops in operand_tuples(kind, ins):
            yield NL(n_in, [], [(kind, ops)], ['g0'])
    for kind in kinds:   # dangling variant, one representative tuple per kind and one with a None
        tups = list(operand_tuples(kind, ins))
        for ops in (tups[0], tups[len(tups) // 2]):
            yield NL(n_in, [], [(kind, ops), ('BUF1', ('i0',)), ('XOR2', ('i1', 'g1'))], ['g2'])


def t2(kinds=None, shared=False, kinds1=None):
    """g0 of every kind feeding every pin of g1 of every kind; other pins on fresh inputs (or, with
    shared=True, on the same four inputs i0..i3, which keeps the stimulus space at 4 variables).
    Variants: plain / g0 also observed / g0 also on a second pin of g1."""
    kinds = kinds or ref.PRIMITIVES_33
    if shared:
        for k0 in kinds:
            a0 = ARITY[k0]
            for k1 in (kinds1 or kinds):
                a1 = ARITY[k1]
                for p in range(a1):
                    ops0 = tuple(f'i{j}' for j in range(a0))
                    ops1 = ['g0' if q == p else f'i{(q + 1 + p) % 4}' for q in range(a1)]
                    yield NL(4, [], [(k0, ops0), (k1, tuple(ops1))], ['g1'])
        return
    for k0 in kinds:
        a0 = ARITY[k0]
        for k1 in kinds:
            a1 = ARITY[k1]
            for p in range(a1):
                ops0 = tuple(f'i{j}' for j in range(a0))
                nxt = a0
                ops1 = []
                for q in range(a1):
                    if q == p: ops1.append('g0')
                    else:
                        ops1.append(f'i{nxt}'); nxt += 1
                yield NL(nxt, [], [(k0, ops0), (k1, tuple(ops1))], ['g1'])
                yield NL(nxt, [], [(k0, ops0), (k1, tuple(ops1))], ['g1', 'g0'])
                if a1 >= 2:
                    q2 = (p + 1) % a1
                    ops2 = list(ops1); ops2[q2] = 'g0'
                    yield NL(nxt, [], [(k0, ops0), (k1, tuple(ops2))], ['g1'])


T3_KINDS_QUICK = ['NAND2', 'XOR2', 'INV1', 'MUX21']
T3_KINDS = ['NAND2', 'NOR2', 'XOR2', 'INV1', 'AO21', 'MUX21']


def t3_shards(n_st, n_g, kinds, state_kinds=('dff', 'latch')):
    for skinds in itertools.product(state_kinds, repeat=n_st):
        for gkinds in itertools.product(kinds, repeat=n_g):
            yield list(skinds), list(gkinds)


SLICE = None      # (which, nslices): set by the runner around a task that covers one slice of a structural shard


def t3_shard(n_in, skinds, gkinds, extra_tap=False, dedupe=True):
    g = _t3_shard_all(n_in, skinds, gkinds, extra_tap, dedupe)
    return take_slice(g, SLICE[1], SLICE[0]) if SLICE else g


_COUNTS = {}


def t3_count(n_in, skinds, gkinds):
    key = (n_in, tuple(skinds), tuple(gkinds))
    if key not in _COUNTS:
        _COUNTS[key] = sum(1 for _ in _t3_shard_all(n_in, skinds, gkinds, True, True))
    return _COUNTS[key]


def find_t3(task):
    """the ('t3', n_in, state kinds, gate kinds) part of a task tuple, wherever the check module put it"""
    if len(task) >= 4 and task[0] == 't3' and isinstance(task[2], list): return task[:4]
    for x in task:
        if isinstance(x, tuple) and len(x) >= 4 and x[0] == 't3': return x[:4]
    return None


def slice_t3_tasks(tasks, per_task):
    """Splits every task that enumerates a structural shard with more than per_task netlists into tasks covering one interleaved
    slice each (every nsl-th netlist), and orders the result so that slice 0 of every shard comes first, then slice 1, ...:
    balanced work for the pool, and a run that ends at its wall-clock budget has covered a uniform sample of every shard."""
    out = []
    for t in tasks:
        spec = find_t3(t)
        nsl = 1 if spec is None else max(1, -(-t3_count(spec[1], spec[2], spec[3]) // per_task))
        if nsl == 1: out.append((0, t))
        else: out += [(sl, ('@slice', sl, nsl, t)) for sl in range(nsl)]
    out.sort(key=lambda x: x[0])
    return [t for _, t in out]


def _t3_shard_all(n_in, skinds, gkinds, extra_tap=False, dedupe=True):
    """Structural family, one shard (fixed state kinds and gate kinds): every operand of every gate ranges
    over all earlier sources and None; every state data pin over all signals; outputs = all gate outputs
    without reader (sinks)."""
    n_st, n_g = len(skinds), len(gkinds)
    ins = [f'i{k}' for k in range(n_in)]
    seen = set()
    st_sigs = []
    for k, sk in enumerate(skinds):
        st_sigs.append(f'q{k}')
        if sk == 'dff': st_sigs.append(f'n{k}')

    def rec(k, gates):
        if k == n_g:
            yield list(gates); return
        srcs = ins + st_sigs + [f'g{j}' for j in range(k)]
        for ops in operand_tuples(gkinds[k], srcs):
            yield from rec(k + 1, gates + [(gkinds[k], ops)])
    for gates in rec(0, []):
        allsigs = ins + st_sigs + [f'g{j}' for j in range(n_g)]
        for sdata in itertools.product(allsigs, repeat=n_st):
            states = list(zip(skinds, sdata))
            nl = NL(n_in, states, gates, [])
            r = nl.readers()
            sinks = [f'g{j}' for j in range(n_g) if f'g{j}' not in r]
            if not sinks and n_st == 0:
                continue
            nl.outs = sinks
            if dedupe:
                key = canon(nl)
                if key in seen: continue
                seen.add(key)
            yield nl
            if extra_tap and n_g >= 2 and 'g0' not in sinks:
                yield NL(n_in, states, gates, sinks + ['g0'])


def t3(n_in, n_st, n_g, kinds, state_kinds=('dff', 'latch'), **kw):
    for skinds, gkinds in t3_shards(n_st, n_g, kinds, state_kinds):
        yield from t3_shard(n_in, skinds, gkinds, **kw)


def canon(nl):
    """Canonical key under renaming of primary inputs (an isomorphism of circuit and stimulus set)."""
    best = None
    for perm in itertools.permutations(range(nl.n_in)):
        def m(s):
            if s is not None and s[0] == 'i': return f'i{perm[int(s[1:])]}'
            return s
        key = (tuple((k, m(d)) for k, d in nl.states),
               tuple((k, tuple(m(o) for o in ops)) for k, ops in nl.gates), tuple(m(o) for o in nl.outs))
        key = repr(key)
        if best is None or key < best: best = key
    return best


def t4(kinds=None):
    """Fixed deeper shapes with every kind substituted at one position."""
    kinds = kinds or ref.PRIMITIVES_33
    for kind in kinds:
        a = ARITY[kind]
        # XOR ladder of depth 5 with `kind` in the middle
        gates = [('XOR2', ('i0', 'i1')), ('XOR2', ('g0', 'i2'))]
        ops = ['g1'] + [f'i{(3 + j) % 4}' if j % 2 == 0 else f'g{j % 2}' for j in range(a - 1)]
        gates.append((kind, tuple(ops)))
        gates += [('XOR2', ('g2', 'i3')), ('NAND2', ('g3', 'g0')), ('INV1', ('g4',))]
        yield NL(4, [], gates, ['g5'])
        # NAND tree with reconvergent fan-out feeding `kind`
        gates = [('NAND2', ('i0', 'i1')), ('NAND2', ('i1', 'i2')), ('NAND2', ('g0', 'g1')), ('NOR2', ('g0', 'i3'))]
        ops = [['g2', 'g3', 'g0', 'i2'][j] for j in range(a)]
        gates.append((kind, tuple(ops)))
        yield NL(4, [], gates, ['g4', 'g3'])
        # sequential: kind feeds a flip-flop whose Q/QN feed back
        ops = [['q0', 'i0', 'n0', 'i1'][j] for j in range(a)]
        yield NL(2, [('dff', 'g0')], [(kind, tuple(ops)), ('XOR2', ('n0', 'i1'))], ['g1'])
        ops = [['q0', 'i0', 'q1', 'i1'][j] for j in range(a)]
        yield NL(2, [('latch', 'g0'), ('dff', 'q0')], [(kind, tuple(ops))], ['n1'])
    # fan-out 1..9 (crosses a byte boundary in per-line bookkeeping) of one stem
    for fo in range(1, 10):
        gates = [('NAND2', ('i0', 'i1'))] + [('XOR2', ('g0', f'i{j % 3}')) for j in range(fo)]
        yield NL(3, [], gates, [f'g{j + 1}' for j in range(fo)])
    # deep chains (depth 8) of inverters/buffers with taps
    for d in range(2, 9):
        gates = [('INV1', ('i0',))] + [('INV1' if j % 3 else 'BUF1', (f'g{j}',)) for j in range(d)]
        yield NL(1, [], gates, [f'g{d}', f'g{d // 2}'])


def t5():
    """Circuits with gates whose output is left unconnected (dangling), at several depths, next to live
    logic including complex kinds that use scratch memory in the multi-valued logic simulator."""
    chains = [
        ['NAND2', 'INV1', 'AO21', 'XOR2'],
        ['XOR2', 'MUX21', 'INV1', 'OA22'],
        ['NOR2', 'BUF1', 'NAND2', 'AOI211'],
        ['AND2', 'OR2', 'XOR2', 'INV1', 'NAND2'],
    ]
    for chain in chains:
        gates = []
        for k, kind in enumerate(chain):
            a = ARITY[kind]
            first = f'g{k - 1}' if k else 'i0'
            gates.append((kind, tuple([first] + [f'i{(k + j) % 3}' for j in range(1, a)])))
        n = len(chain)
        srcs = ['i0', 'i1'] + [f'g{k}' for k in range(n - 1)]
        for dk in ('AND2', 'INV1', 'AO21'):
            for s1 in range(len(srcs)):
                # one dangling gate
                g1 = (dk, tuple([srcs[s1]] + ['i2'] * (ARITY[dk] - 1)))
                yield NL(3, [], gates + [g1], [f'g{n - 1}'])
                for s2 in range(s1, len(srcs)):
                    g2 = ('OR2', (srcs[s2], 'i1'))
                    yield NL(3, [], gates + [g1, g2], [f'g{n - 1}'])
                    # dangling gates plus a second observed tap and a state element
                    yield NL(3, [('dff', f'g{n - 2}')], gates + [g1, g2], [f'g{n - 1}', 'g0'])
        # state elements capturing an early signal that is also read by logic (its memory must stay pinned)
        for k in range(n - 1):
            yield NL(3, [('dff', f'g{k}')], gates, [f'g{n - 1}'])
            yield NL(3, [('latch', f'g{k}'), ('dff', 'i1')], gates + [('XOR2', ('q0', 'n1'))], [f'g{n - 1}', f'g{n}'])


def big():
    """structures beyond small-integer widths: 300 levels, a fan-out of 300, 300 gates in one level (1-2 inputs, few outputs)"""
    from mc.netlist import NL
    yield NL(1, [], [('INV1', ('i0',))] + [('INV1' if k % 3 else 'BUF1', (f'g{k - 1}',)) for k in range(1, 300)], ['g299', 'g150', 'g256'])
    yield NL(2, [], [('BUF1', ('i0',))] + [(('XOR2', 'NAND2', 'OR2')[k % 3], ('g0', 'i1')) for k in range(1, 301)], ['g300', 'g1', 'g257'])
    yield NL(1, [('dff', 'g259')], [('XOR2', ('i0', 'q0'))] + [('AND2' if k % 2 else 'OR2', (f'g{k - 1}', 'i0')) for k in range(1, 260)], ['g259', 'n0'])
    # ... and the smallest ones: no input at all, no output at all, no gate at all
    yield NL(0, [('dff', 'n0')], [], ['q0'])                                  # a flip-flop fed by its own inverted output, no input
    yield NL(0, [], [('__const1__', ()), ('INV1', ('g0',))], ['g0', 'g1'])      # constants only
    yield NL(1, [('dff', 'i0'), ('latch', 'q0')], [], [])                       # no output port: only state elements capture
    yield NL(2, [], [], ['i1', 'i0'])                                         # ports wired straight through
    # flip-flop and latch kinds as they occur in netlists: 'dff' / 'latch' anywhere in the kind, any case (scan, set/reset variants)
    for fk in ('SDFFARX1_RVT', 'sdffar', 'DFFX1', 'AODFFARX2'):
        yield NL(2, [(fk, 'g0')], [('XOR2', ('i0', 'n0')), ('AND2', ('i1', 'n0'))], ['q0', 'g1'])
    yield NL(1, [('HLATCHX1', 'i0'), ('SDFFX2', 'q0')], [('NOR2', ('q0', 'n1'))], ['g0', 'q1'])


def take_slice(gen, nslices, which):
    for i, x in enumerate(gen):
        if i % nslices == which: yield x
