"""Tiny netlist AST (independent of kyupy), builders that turn an AST into a
kyupy.Circuit through the public constructors in several styles, and the AST
reference evaluators.

Signals are strings:  'i<k>' primary input k, 'g<k>' output of gate k,
'q<k>' true output of state element k, 'n<k>' inverted output of flip-flop k.
None = unconnected pin.
"""
import itertools

from . import ref


class NL:
    """inputs: count; states: [(kind, data_sig)]; gates: [(kind, (sig|None,...))]; outs: [sig]."""

    def __init__(self, n_in, states, gates, outs):
        self.n_in = n_in
        self.states = [tuple(s) for s in states]
        self.gates = [(k, tuple(o)) for k, o in gates]
        self.outs = list(outs)

    def to_json(self):
        return {'n_in': self.n_in, 'states': [list(s) for s in self.states],
                'gates': [[k, list(o)] for k, o in self.gates], 'outs': self.outs}

    @staticmethod
    def from_json(d):
        return NL(d['n_in'], d['states'], [(k, tuple(o)) for k, o in d['gates']], d['outs'])

    def __repr__(self):
        return f'NL({self.n_in}, {self.states}, {self.gates}, {self.outs})'

    # ---- structure helpers
    def readers(self):
        """signal -> list of ('g', k, pin) | ('s', k) | ('o', j)"""
        r = {}
        for k, (_, ops) in enumerate(self.gates):
            for p, s in enumerate(ops):
                if s is not None: r.setdefault(s, []).append(('g', k, p))
        for k, (_, d) in enumerate(self.states):
            if d is not None: r.setdefault(d, []).append(('s', k))
        for j, s in enumerate(self.outs):
            r.setdefault(s, []).append(('o', j))
        return r

    def signals(self):
        s = [f'i{k}' for k in range(self.n_in)]
        for k, (kind, _) in enumerate(self.states):
            s.append(f'q{k}')
            if 'dff' in kind.lower(): s.append(f'n{k}')
        s += [f'g{k}' for k in range(len(self.gates))]
        return s

    def gate_order(self):
        """Topological order of gate indices (own Kahn sort); raises on combinational cycle."""
        done, order = set(), []
        pending = list(range(len(self.gates)))
        while pending:
            progress = False
            for k in list(pending):
                if all(o is None or o[0] != 'g' or int(o[1:]) in done for o in self.gates[k][1]):
                    done.add(k); order.append(k); pending.remove(k); progress = True
            if not progress:
                raise ValueError('combinational cycle')
        return order

    # ---- reference evaluation
    def eval2(self, in_vals, st_vals, mask):
        """2-valued: in_vals/st_vals lists of ints (bit-vectors).  Returns dict sig -> int."""
        v = {'c0': 0, 'c1': mask}
        for k in range(self.n_in): v[f'i{k}'] = in_vals[k] & mask
        for k, (kind, _) in enumerate(self.states):
            v[f'q{k}'] = st_vals[k] & mask
            if 'dff' in kind.lower(): v[f'n{k}'] = ~st_vals[k] & mask
        for k in self.gate_order():
            kind, ops = self.gates[k]
            v[f'g{k}'] = ref.gate2(kind, [None if o is None else v[o] for o in ops], mask)
        return v

    def eval8(self, in_vals, st_vals):
        """8-valued: lists of numpy code arrays. Returns dict sig -> code array."""
        v = {}
        shape = next((a.shape for a in list(in_vals) + list(st_vals)), None)
        for k in range(self.n_in): v[f'i{k}'] = in_vals[k]
        for k, (kind, _) in enumerate(self.states):
            v[f'q{k}'] = st_vals[k]
            if 'dff' in kind.lower(): v[f'n{k}'] = ref.table8('inv', 1)[st_vals[k]]
        for k in self.gate_order():
            kind, ops = self.gates[k]
            v[f'g{k}'] = ref.gate8(kind, [None if o is None else v[o] for o in ops], shape=shape)
        return v

    def next_state2(self, in_vals, st_vals, mask):
        v = self.eval2(in_vals, st_vals, mask)
        return [v[d] for _, d in self.states], v


# --------------------------------------------------------------------------
# builders
# --------------------------------------------------------------------------

STYLES = [
    # (ports, forks, order)
    ('cell', 'always', 'io_first'),
    ('fork', 'always', 'io_first'),      # bench style: ports are forks
    ('cell', 'fanout', 'gates_first'),   # forks only where a signal fans out
    ('cell', 'chain', 'states_first'),   # chains of two forks
    ('cell', 'multi', 'reverse'),        # interface nodes drive every reader from an own output pin
    ('fork', 'fanout', 'reverse'),
    ('cell', 'chain_first', 'gates_first'),   # a 1:1 fork on the FIRST branch of a fan-out fork
    ('cell', 'chain_rev', 'io_first'),        # chain of two forks, the DOWNSTREAM fork is created first
    ('cell', 'always', 'states_last'),        # node list: forks before cells, state elements at the very end (every deletion displaces one)
    ('fork', 'chain', 'forks_first'),         # node list: all forks first, then the cells in creation order
    ('cell', 'open_nets', 'io_first'),        # a signal nobody reads still has its line and a named fork without fan-out (an unused net)
    ('cell_shared', 'always', 'io_first'),    # as the parsers do: the fork of a signal carries the same name as the cell driving it
    ('cell_shared', 'chain', 'gates_first'),
]


class Built:
    """Result of build(): the kyupy circuit plus maps from AST entities to graph entities."""
    def __init__(self):
        self.circuit = None
        self.in_nodes = []    # node per primary input
        self.out_nodes = []   # node per primary output
        self.st_nodes = []    # node per state element
        self.gate_nodes = []
        self.sig_lines = {}   # signal -> list of Line objects carrying it

    def s_pos(self):
        """positions in circuit.s_nodes"""
        pos = {id(n): i for i, n in enumerate(self.circuit.s_nodes)}
        return ([pos[id(n)] for n in self.in_nodes], [pos[id(n)] for n in self.out_nodes],
                [pos[id(n)] for n in self.st_nodes])


def build(nl, style=STYLES[0], io_order='in_out'):
    from kyupy.circuit import Circuit, Node, Line
    ports, forks, order = style
    shared = ports == 'cell_shared'       # cells and forks have separate name spaces: input cell 'i0' and fork 'i0', gate 'g0' and fork 'g0'
    if shared: ports = 'cell'
    c = Circuit('nl')
    b = Built()
    b.circuit = c
    readers = nl.readers()

    creators = []
    def mk_inputs():
        for k in range(nl.n_in):
            b.in_nodes.append(Node(c, f'i{k}', 'input') if ports == 'cell' else Node(c, f'i{k}'))
    def mk_outputs():
        for j in range(len(nl.outs)):
            b.out_nodes.append(Node(c, f'o{j}', 'output') if ports == 'cell' else Node(c, f'o{j}'))
    def mk_states():
        for k, (kind, _) in enumerate(nl.states):
            b.st_nodes.append(Node(c, f's{k}', kind))
    def mk_gates():
        for k, (kind, _) in enumerate(nl.gates):
            b.gate_nodes.append(Node(c, f'g{k}', kind))
    seq = {'io_first': [mk_inputs, mk_outputs, mk_states, mk_gates],
           'gates_first': [mk_gates, mk_states, mk_inputs, mk_outputs],
           'states_first': [mk_states, mk_outputs, mk_gates, mk_inputs],
           'reverse': [mk_outputs, mk_gates, mk_states, mk_inputs],
           'states_last': [mk_inputs, mk_outputs, mk_states, mk_gates],
           'forks_first': [mk_gates, mk_states, mk_inputs, mk_outputs]}[order]
    for f in seq: f()
    if io_order == 'in_out':
        for n in b.in_nodes + b.out_nodes: c.io_nodes.append(n)
    elif io_order == 'out_in':
        for n in b.out_nodes + b.in_nodes: c.io_nodes.append(n)
    else:  # interleaved
        for pair in itertools.zip_longest(b.out_nodes, b.in_nodes):
            for n in pair:
                if n is not None: c.io_nodes.append(n)

    def driver_of(sig):
        t, k = sig[0], int(sig[1:])
        if t == 'i': return b.in_nodes[k], None      # pin decided below
        if t == 'g': return b.gate_nodes[k], 0
        if t == 'q': return b.st_nodes[k], (0 if 'dff' in nl.states[k][0].lower() else None)
        if t == 'n': return b.st_nodes[k], 1
        raise KeyError(sig)

    def reader_ep(r):
        if r[0] == 'g': return (b.gate_nodes[r[1]], r[2])
        if r[0] == 's': return (b.st_nodes[r[1]], 0)
        return (b.out_nodes[r[1]], 0)

    fork_names = itertools.count()
    def fk(sig, primary=True):
        return sig if (shared and primary and sig[0] in 'ig') else f'{sig}_f{next(fork_names)}'
    for sig in nl.signals():
        rs = readers.get(sig, [])
        if not rs:
            if forks == 'open_nets' and sig[0] in 'gqn':
                dn, dpin = driver_of(sig)
                f = Node(c, f'{sig}_open{next(fork_names)}')
                b.sig_lines.setdefault(sig, []).append(Line(c, dn if dpin is None else (dn, dpin), f))
            continue
        dn, dpin = driver_of(sig)
        lines = b.sig_lines.setdefault(sig, [])

        def drv():
            # endpoint spec for a new line leaving the signal's driver
            if dn.kind == '__fork__': return dn               # port fork: implicit next pin
            if dpin is None: return dn                        # input cell / latch: implicit next free pin
            return (dn, dpin)

        if forks == 'multi' and dpin is None:
            for r in rs: lines.append(Line(c, drv(), reader_ep(r)))
            continue
        if dn.kind == '__fork__':                  # bench-style port is itself the signal fork
            for r in rs: lines.append(Line(c, dn, reader_ep(r)))
            continue
        if forks == 'fanout' and len(rs) == 1:
            lines.append(Line(c, drv(), reader_ep(rs[0])))
            continue
        if forks == 'chain_rev':
            f2 = Node(c, fk(sig, False))      # downstream fork first (creation order matters for name-keyed maps)
            f = Node(c, fk(sig))
            lines.append(Line(c, f, f2))                     # the fork-to-fork line gets the lowest index
            lines.append(Line(c, drv(), f))
            if len(rs) > 1:
                lines.append(Line(c, f, reader_ep(rs[0])))
                for r in rs[1:]: lines.append(Line(c, f2, reader_ep(r)))
            else:
                lines.append(Line(c, f2, reader_ep(rs[0])))
            continue
        f = Node(c, fk(sig))
        lines.append(Line(c, drv(), f))
        if forks == 'chain_first':
            f2 = Node(c, fk(sig, False))
            lines.append(Line(c, f, f2))
            lines.append(Line(c, f2, reader_ep(rs[0])))
            for r in rs[1:]: lines.append(Line(c, f, reader_ep(r)))
            continue
        if forks == 'chain':
            f2 = Node(c, fk(sig, False))
            if len(rs) > 1:   # first reader taps the first fork, the others the second
                lines.append(Line(c, f, reader_ep(rs[0])))
                lines.append(Line(c, f, f2))
                for r in rs[1:]: lines.append(Line(c, f2, reader_ep(r)))
            else:
                lines.append(Line(c, f, f2))
                lines.append(Line(c, f2, reader_ep(rs[0])))
        else:
            for r in rs: lines.append(Line(c, f, reader_ep(r)))
    if order in ('states_last', 'forks_first'):
        state_kind = lambda n: 'dff' in n.kind.lower() or 'latch' in n.kind.lower()
        rank = (lambda n: (2 if state_kind(n) else (0 if n.kind == '__fork__' else 1))) if order == 'states_last' else \
               (lambda n: 0 if n.kind == '__fork__' else 1)
        return renumbered(b, sorted(c.nodes, key=lambda n: (rank(n), n.index)))
    return b


def renumbered(b, node_order):
    """The same graph (names, kinds, pins, line order, port order) re-created through the public API with the nodes in the
    given order. Wiring needs both end points, so a builder that creates forks on the fly can only produce node lists with the
    forks behind the cells; this gives every other arrangement."""
    from kyupy.circuit import Circuit, Node, Line
    old = b.circuit
    c = Circuit(old.name)
    new = {}
    for n in node_order: new[id(n)] = Node(c, n.name, n.kind)
    for n in old.io_nodes: c.io_nodes.append(new[id(n)])
    lmap = {}
    for l in old.lines:
        lmap[id(l)] = Line(c, (new[id(l.driver)], l.driver_pin), (new[id(l.reader)], l.reader_pin))
    r = Built()
    r.circuit = c
    r.in_nodes = [new[id(n)] for n in b.in_nodes]
    r.out_nodes = [new[id(n)] for n in b.out_nodes]
    r.st_nodes = [new[id(n)] for n in b.st_nodes]
    r.gate_nodes = [new[id(n)] for n in b.gate_nodes]
    r.sig_lines = {sig: [lmap[id(l)] for l in ls] for sig, ls in b.sig_lines.items()}
    return r


def well_formed(nl):
    """Domain conventions D2/D5: acyclic, state data pins connected, outputs tap existing signals."""
    try:
        nl.gate_order()
    except ValueError:
        return False
    sigs = set(nl.signals())
    for _, d in nl.states:
        if d is None or d not in sigs: return False
    for _, ops in nl.gates:
        for o in ops:
            if o is not None and o not in sigs: return False
    return all(o in sigs for o in nl.outs)
