"""E2 - explicit-state exploration over histories of a real object.

A *system* object supplies:
    initial()                 -> live object in its initial state
    clone(obj)                -> independent copy of a live object (or rebuild from history)
    enabled(obj)              -> list of operations (JSON-able tuples/lists), simplest first
    apply(obj, op)            -> result of the real operation (exceptions propagate)
    canon(obj)                -> hashable canonical state (complete: equal keys => equal futures)
    check(obj, op, result, model) -> list of (what, message) violations; also steps the reference model
    model_initial()/model_clone() for the lock-step reference model

explore() runs breadth-first to a depth bound, deduplicating on canon(); every transition is
executed on the real object.  Returns counts and violations (shortest history first).
"""
from collections import deque


def explore(system, max_depth, start_histories=((),), state_cap=None, on_state=None):
    seen = set()
    frontier = deque()
    stats = {'states': 0, 'transitions': 0, 'max_depth': 0, 'rejected': 0, 'capped': False}
    violations = []

    def build(hist):
        obj = system.initial()
        model = system.model_initial()
        for op in hist:
            r = system.apply(obj, op)
            system.model_apply(model, op, r)
        return obj, model

    for h in start_histories:
        obj, model = build(list(h))
        k = system.canon(obj)
        if k in seen: continue
        seen.add(k)
        frontier.append((list(h), obj, model))
        stats['states'] += 1
        if on_state: on_state(obj, list(h))
    while frontier:
        hist, obj, model = frontier.popleft()
        depth = len(hist)
        stats['max_depth'] = max(stats['max_depth'], depth)
        if depth >= max_depth: continue
        for op in system.enabled(obj):
            o2 = system.clone(obj)
            m2 = system.model_clone(model)
            stats['transitions'] += 1
            try:
                r = system.apply(o2, op)
            except Exception as ex:   # a raising operation: still a transition; object must stay consistent
                stats['rejected'] += 1
                vs = system.check_rejected(o2, op, ex, m2)
                for what, msg in vs:
                    violations.append((hist + [op], what, msg))
                continue
            vs = system.check(o2, op, r, m2)
            for what, msg in vs:
                violations.append((hist + [op], what, msg))
            if vs: continue   # do not explore beyond a broken state
            k = system.canon(o2)
            if k in seen: continue
            seen.add(k)
            stats['states'] += 1
            if on_state: on_state(o2, hist + [op])
            if state_cap and stats['states'] >= state_cap:
                stats['capped'] = True
                return stats, violations, seen
            frontier.append((hist + [op], o2, m2))
    return stats, violations, seen
