"""Shared runner machinery: kyupy import from the working tree, parallel task
execution, violation/replay handling, known findings, evidence files.

Every check module exposes:

    PROP        property id, e.g. 'C01'
    LEVEL       evidence level ('exploration' | 'model_checking')
    RULE        text: how cases are enumerated, what makes one distinct/non-trivial
    ASSUMPTIONS list of strings
    tasks(tier, seed)   -> iterable of picklable coarse-grained task descriptors
    run_task(task)      -> Result
    replay(case)        -> list of violation dicts (re-executes exactly one case)
    finish(agg, tier)   -> optional: dict of extra coverage keys / raises HarnessError

A violation is a dict {key, case, msg}.  ``key`` identifies the *specific*
failing input (used for known findings and de-duplication), ``case`` is a
JSON-serialisable description that ``replay`` understands.
"""
import contextlib
import fnmatch
import hashlib
import io
import json
import multiprocessing as mp
import os
import sys
import time
import traceback

VERIF = os.path.dirname(os.path.dirname(os.path.abspath(__file__)))
KYUPY_SRC = os.environ.get('KYUPY_SRC', '/repo/src')
EVID = os.environ.get('VERIF_EVIDENCE_DIR', os.path.join(VERIF, 'evidence'))
NPROC = int(os.environ.get('VERIF_NPROC', str(min(16, os.cpu_count() or 1))))


def setup_kyupy():
    """Make ``import kyupy`` resolve to the current working tree of /repo."""
    if sys.path[0] != KYUPY_SRC:
        sys.path.insert(0, KYUPY_SRC)
    os.environ.setdefault('KYUPY_VERIF', '1')
    with contextlib.redirect_stdout(io.StringIO()):  # swallow the "Numba unavailable" banner
        import kyupy  # noqa
        import kyupy.logic  # noqa
    assert os.path.realpath(kyupy.__file__).startswith(os.path.realpath(KYUPY_SRC)), \
        f'kyupy imported from {kyupy.__file__}, expected {KYUPY_SRC}'
    kyupy.log.logfile = _Null()
    return kyupy


class _Null:
    def write(self, *_): pass
    def flush(self): pass


class HarnessError(Exception):
    pass


def h64(obj):
    """Stable 64-bit hash of a JSON-able / bytes object (not Python's randomized hash)."""
    if not isinstance(obj, (bytes, bytearray)):
        obj = repr(obj).encode()
    return int.from_bytes(hashlib.blake2b(obj, digest_size=8).digest(), 'little')


class Result:
    """What one task contributes."""
    __slots__ = ('evals', 'sigs', 'counters', 'violations', 'samples', 'states', 'transitions', 'validated')

    def __init__(self):
        self.evals = 0
        self.sigs = set()       # 64-bit signatures of distinct non-trivial cases
        self.counters = {}      # name -> int (vacuity guards, family counts)
        self.violations = []    # list of dicts {key, case, msg}
        self.samples = []       # a few cases written out
        self.states = 0
        self.transitions = 0
        self.validated = 0

    def count(self, name, n=1):
        self.counters[name] = self.counters.get(name, 0) + n

    def sig(self, obj):
        self.sigs.add(h64(obj))

    def violation(self, key, case, msg):
        self.count('violations_raw')
        self.count('viol:' + key.rsplit('/', 1)[-1])
        kf = _known_pattern(key)
        if kf is not None:
            # occurrences of a listed finding: keep the first one per task, never let them use up the room for new violations
            self.count('known:' + kf)
            if self.counters['known:' + kf] > 1: return
            self.violations.append({'key': key, 'case': case, 'msg': str(msg)[:2000], 'known': True})
            return
        if sum(1 for v in self.violations if not v.get('known')) < 50:
            self.violations.append({'key': key, 'case': case, 'msg': str(msg)[:2000]})

    def merge(self, other):
        self.evals += other.evals
        self.sigs |= other.sigs
        for k, v in other.counters.items():
            self.counters[k] = self.counters.get(k, 0) + v
        self.violations.extend(other.violations)
        for smp in other.samples:
            if len(self.samples) < 6 or (isinstance(smp, dict) and 'harness_error' in smp and len(self.samples) < 12):
                self.samples.append(smp)
        self.states += other.states
        self.transitions += other.transitions
        self.validated += other.validated


_KNOWN_CACHE = None


def _known_pattern(key):
    global _KNOWN_CACHE
    if _KNOWN_CACHE is None:
        _KNOWN_CACHE = [e for e in load_known() if e.get('status') == 'known']
    prop = key.split('/', 1)[0]
    for e in _KNOWN_CACHE:
        if e.get('property') == prop and fnmatch.fnmatchcase(key, e['key']): return e['key']
    return None


def _worker(args):
    modname, task = args
    mod = sys.modules.get(modname) or __import__(modname, fromlist=['x'])
    try:
        if task and task[0] == '@slice':       # one interleaved slice of a structural shard (see families.slice_t3_tasks)
            from mc import families
            families.SLICE = (task[1], task[2])
            try:
                return mod.run_task(task[3])
            finally:
                families.SLICE = None
        return mod.run_task(task)
    except Exception:
        r = Result()
        r.counters['harness_errors'] = 1
        r.samples.append({'harness_error': traceback.format_exc()[-3000:], 'task': repr(task)[:500]})
        return r


def run_tasks(mod, tasks, deadline=None):
    """Run tasks over a fork pool; returns (aggregate Result, completed: bool)."""
    agg = Result()
    completed = True
    tasks = list(tasks)
    if NPROC <= 1 or len(tasks) <= 1:
        for t in tasks:
            agg.merge(_worker((mod.__name__, t)))
            if deadline and time.time() > deadline:
                completed = False
                break
        return agg, completed
    ctx = mp.get_context('fork')
    with ctx.Pool(NPROC) as pool:
        it = pool.imap_unordered(_worker, [(mod.__name__, t) for t in tasks], chunksize=1)
        done = 0
        while done < len(tasks):
            try:
                r = it.next(timeout=5.0)     # wake up regularly: the budget also ends a run whose remaining tasks are long
            except mp.TimeoutError:
                r = None
            except StopIteration:
                break
            if r is not None:
                agg.merge(r)
                done += 1
            if deadline and time.time() > deadline and done < len(tasks):
                completed = False
                pool.terminate()
                break
    agg.counters['tasks_total'] = len(tasks)
    agg.counters['tasks_done'] = done if NPROC > 1 else len(tasks)
    return agg, completed


def load_known():
    p = os.path.join(VERIF, 'known_findings.json')
    if not os.path.exists(p):
        return []
    with open(p) as f:
        return json.load(f)


def is_known(prop, key, known):
    for e in known:
        if e.get('property') == prop and e.get('status') == 'known' and fnmatch.fnmatchcase(key, e['key']):
            return e
    return None


def write_evidence(prop, tier, seed, level, coverage, assumptions, wall, nviol):
    os.makedirs(EVID, exist_ok=True)
    ev = {'property_id': prop, 'tier': tier, 'seed': seed, 'level': level, 'coverage': coverage,
          'assumptions': assumptions, 'wall_s': round(wall, 3), 'violations': nviol}
    p = os.path.join(EVID, f'{prop}.json')
    with open(p + '.tmp', 'w') as f:
        json.dump(ev, f, indent=1, sort_keys=True, default=str)
    os.replace(p + '.tmp', p)
    return p


def main(mod, argv=None):
    import argparse
    ap = argparse.ArgumentParser()
    ap.add_argument('--tier', default=os.environ.get('VERIF_TIER', 'quick'), choices=['quick', 'thorough'])
    ap.add_argument('--replay', default=None)
    ap.add_argument('--budget', type=float, default=None, help='wall-clock cap in seconds (reported in evidence)')
    args = ap.parse_args(argv)
    seed = int(os.environ.get('VERIF_SEED', '0') or 0)
    prop = mod.PROP
    setup_kyupy()

    if args.replay:
        with open(args.replay) as f:
            rec = json.load(f)
        print(f'replaying {args.replay}: key={rec.get("key")}')
        print(json.dumps(rec['case'], indent=1)[:4000])
        vs = mod.replay(rec['case'])
        for v in vs:
            print(f'  violated: {v["key"]}: {v["msg"]}')
        if vs:
            print(f'VIOLATION property={prop} replay={args.replay}')
            return 1
        print('no violation on replay')
        return 0

    t0 = time.time()
    deadline = t0 + args.budget if args.budget else None
    try:
        tasks = list(mod.tasks(args.tier, seed))
    except Exception:
        print(f'HARNESS-ERROR property={prop}: task enumeration raised', file=sys.stderr)
        traceback.print_exc()
        return 2
    agg, completed = run_tasks(mod, tasks, deadline)
    wall = time.time() - t0

    # ---- violations: dedupe by key, split known / new, confirm by re-execution
    known = load_known()
    by_key = {}
    for v in agg.violations:
        by_key.setdefault(v['key'], v)
    new, kn = [], {}
    for key in sorted(by_key):
        e = is_known(prop, key, known)
        if e is not None:
            kn.setdefault(e['key'], (e, by_key[key]))
        else:
            new.append(by_key[key])
    rc = 0
    harness_problem = None
    if agg.counters.get('harness_errors'):
        harness_problem = f'{agg.counters["harness_errors"]} task(s) crashed inside the harness'
    extra = {}
    if harness_problem is None and hasattr(mod, 'finish'):
        try:
            extra = mod.finish(agg, args.tier) or {}
        except HarnessError as ex:
            if completed: harness_problem = str(ex)
            else: extra = {'vacuity_guards': f'not all met because the run was capped ({ex})'}

    replay_dir = os.path.join(EVID, 'replay')
    os.makedirs(replay_dir, exist_ok=True)
    for f in os.listdir(replay_dir):
        if f.startswith(prop + '-'):
            os.remove(os.path.join(replay_dir, f))
    reported, unreproduced = [], []
    for v in new[:40]:
        if len(reported) >= 10: break
        try:
            again = mod.replay(v['case'])
        except Exception:
            again = None
            harness_problem = 'replay raised: ' + traceback.format_exc()[-1500:]
        if again is not None and not any(a['key'] == v['key'] for a in again):
            unreproduced.append(v)      # depends on what the worker process did before (state kept across calls in the code under test)
            continue
        p = os.path.join(replay_dir, f'{prop}-{len(reported)}.json')
        with open(p, 'w') as f:
            json.dump(v, f, indent=1, default=str)
        reported.append((v, p))
    if unreproduced and not reported:
        # no violation can be re-executed in isolation: they are reported all the same (the workers saw them), marked as history dependent
        for v in unreproduced[:3]:
            p = os.path.join(replay_dir, f'{prop}-{len(reported)}.json')
            with open(p, 'w') as f:
                json.dump(dict(v, reproduced_in_isolation=False), f, indent=1, default=str)
            reported.append((v, p))
        print(f'NOTE property={prop}: {len(unreproduced)} violation(s) seen by the workers do not re-occur when the case is executed alone in a fresh '
              f'process state - they depend on earlier calls in the same process', file=sys.stderr)

    for e, v in kn.values():
        print(f'KNOWN-FINDING: property={prop} {e["what"]} (key {e["key"]})')
    for v, p in reported:
        print(f'  {v["key"]}: {v["msg"][:300]}')
        print(f'VIOLATION property={prop} replay={p}')
        rc = 1

    cov = {
        'evaluations': agg.evals,
        'distinct_nontrivial': len(agg.sigs),
        'rule': mod.RULE,
        'samples': agg.samples[:6] or [{'note': 'no sample recorded'}],
        'exhaustive': bool(completed and not harness_problem),
        'counters': dict(sorted(agg.counters.items())),
        'tasks': len(tasks),
        'workers': NPROC,
        'known_findings_seen': sorted(k for k in kn),
        'new_violation_keys': [v['key'] for v in new[:50]],
        'violations_not_reproduced_in_isolation': [v['key'] for v in unreproduced[:20]],
    }
    if not completed:
        cov['cap'] = f'wall-clock budget {args.budget}s hit; {agg.counters.get("tasks_done", 0)} of {len(tasks)} tasks fully covered'
    if mod.LEVEL == 'model_checking':
        cov['states'] = agg.states
        cov['transitions'] = agg.transitions
        cov['traces_validated_against_impl'] = agg.validated
    cov.update(extra)
    write_evidence(prop, args.tier, seed, mod.LEVEL, cov, list(mod.ASSUMPTIONS), wall, len(new))
    print(f'{prop} tier={args.tier} seed={seed} evaluations={agg.evals} distinct={len(agg.sigs)} '
          f'tasks={len(tasks)} new_violations={len(new)} known={len(kn)} wall={wall:.1f}s '
          f'exhaustive={cov["exhaustive"]}')
    if harness_problem:
        print(f'HARNESS-ERROR property={prop}: {harness_problem}', file=sys.stderr)
        for s in agg.samples:
            if isinstance(s, dict) and 'harness_error' in s:
                print(s['harness_error'], file=sys.stderr)
                break
        return 2 if rc == 0 else rc
    return rc
