"""Helpers to drive kyupy.logic_sim.LogicSim with the harness's own bit packing
(the package's conversion helpers are themselves under test in C15)."""
import numpy as np


def int_to_bits(v, n):
    return np.array([(v >> p) & 1 for p in range(n)], dtype=np.uint8)


def bits_to_int(bits):
    r = 0
    for p, b in enumerate(bits):
        if b: r |= (1 << p)
    return r


def pack(bits, nbytes):
    """bits: uint8 array (n,) -> packed little-endian bytes of length nbytes."""
    out = np.zeros(nbytes * 8, dtype=np.uint8)
    out[:len(bits)] = bits
    return np.packbits(out, bitorder='little')


def unpack(byts, n):
    return np.unpackbits(np.asarray(byts, dtype=np.uint8), bitorder='little')[:n]


def assign2(sim, pos, value_int, n):
    """Assign 0/1 pattern bits (ONE stored as 0b011, i.e. planes 0 and 1 set) to s[0, pos]."""
    nb = sim.s.shape[-1]
    p = pack(int_to_bits(value_int, n), nb)
    sim.s[0, pos, 0] = p
    sim.s[0, pos, 1] = p
    sim.s[0, pos, 2] = 0


def read2(sim, plane, pos, n):
    """Returns int bit-vector of s[plane, pos] (bit 0 of the value code)."""
    return bits_to_int(unpack(sim.s[plane, pos, 0], n))


def assign_codes(sim, pos, codes):
    """Assign 3-bit value codes (array of length n) to s[0, pos]."""
    nb = sim.s.shape[-1]
    codes = np.asarray(codes, dtype=np.uint8)
    for b in range(3):
        sim.s[0, pos, b] = pack((codes >> b) & 1, nb)


def read_codes(sim, plane, pos, n, mdim=3):
    c = np.zeros(n, dtype=np.uint8)
    for b in range(mdim):
        c |= unpack(sim.s[plane, pos, b], n) << b
    return c


def read_c_codes(sim, line_index, n):
    """Value codes stored in combinational memory for a line."""
    loc = sim.c_locs[line_index]
    c = np.zeros(n, dtype=np.uint8)
    for b in range(sim.c.shape[1]):
        c |= unpack(sim.c[loc, b], n) << b
    return c
