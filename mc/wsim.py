"""Helpers for the waveform simulator checks (C03-C07, C13): own sentinel constants, waveform
decoding, stimulus/delay/capacity enumerators, kernel- and simulator-level runners."""
import itertools

import numpy as np

TMAX = np.float32(2 ** 127)
TMIN = np.float32(-2 ** 127)


def decode(c, loc, cap, lane):
    """Decodes one waveform from memory: (initial value, [finite times], terminated, overflow flag, raw list)."""
    w = c[loc:loc + cap, lane]
    init = 1 if w[0] <= TMIN else 0
    times = []
    terminated = False
    ovl = False
    for i, t in enumerate(w):
        if t >= TMAX:
            terminated = True
            ovl = bool(t > TMAX)
            break
        if i == 0 and t <= TMIN: continue
        times.append(float(t))
    return init, times, terminated, ovl


def encode(init, times):
    """list of float32 entries for a waveform with given initial value and finite transition times"""
    return ([TMIN] if init else []) + [np.float32(t) for t in times] + [TMAX]


def subsets_of_grid(T):
    grid = list(range(1, T + 1))
    for k in range(len(grid) + 1):
        for s in itertools.combinations(grid, k):
            yield list(s)


def waveforms(T, max_entries=None):
    """all input waveforms: initial in {0,1} x subsets of the time grid {1..T}"""
    out = []
    for init in (0, 1):
        for s in subsets_of_grid(T):
            if max_entries is not None and init + len(s) > max_entries: continue
            out.append((init, [float(x) for x in s]))
    return out


# delay tables: [input polarity (0 rising, 1 falling)][output polarity (0 rising, 1 falling)]; all dyadic
DELAY_TABLES = {
    'z': [[0, 0], [0, 0]],
    'u': [[1, 1], [1, 1]],
    'w': [[2, 2], [2, 2]],
    'q': [[.25, .25], [.25, .25]],
    'o': [[1, 2], [1, 2]],        # depends on output polarity
    'i': [[1, 1], [3, 3]],        # depends on input polarity
    'd': [[.5, 1], [1.5, 2.5]],   # four distinct values
    'e': [[2, .5], [.25, 3]],
}
UNIFORM = ('z', 'u', 'w', 'q')    # polarity independent


def delay_array(nlines, names, dtype=np.float64):
    """names: list of table names per line (len nlines) -> array (1, nlines, 2, 2)"""
    d = np.zeros((1, nlines, 2, 2), dtype=dtype)
    for i, nm in enumerate(names):
        d[0, i] = DELAY_TABLES[nm]
    return d


def delay_plans(nlines, bound, base='u', others=('z', 'o', 'i', 'd')):
    """deviation-bounded delay assignments: base table everywhere, up to `bound` lines deviating"""
    yield [base] * nlines
    if bound >= 1:
        for i in range(nlines):
            for o in others:
                p = [base] * nlines; p[i] = o
                yield p
    if bound >= 2:
        for i, j in itertools.combinations(range(nlines), 2):
            for o1, o2 in (('d', 'z'), ('i', 'o'), ('z', 'd')):
                p = [base] * nlines; p[i] = o1; p[j] = o2
                yield p


def stim_lanes(nv, times=(1.0, 3.0)):
    """All assignments of {0, 1, R@t, F@t} to nv variables. Returns (n, init[nv][n], time[nv][n], final[nv][n])."""
    alphabet = [(0, 0.0, 0), (1, 0.0, 1)] + [(0, t, 1) for t in times] + [(1, t, 0) for t in times]
    A = len(alphabet)
    n = A ** nv
    p = np.arange(n)
    init, tt, fin = [], [], []
    for k in range(nv):
        idx = (p // (A ** k)) % A
        init.append(np.array([alphabet[i][0] for i in idx], dtype=np.float32))
        tt.append(np.array([alphabet[i][1] for i in idx], dtype=np.float32))
        fin.append(np.array([alphabet[i][2] for i in idx], dtype=np.float32))
    return n, init, tt, fin


def code8(init, fin):
    """8-valued code arrays for stimulus components: 0, 1, R, F"""
    i = np.asarray(init).astype(np.uint8); f = np.asarray(fin).astype(np.uint8)
    return ((i ^ f) << 2) | (i << 1) | f


def line_window(circuit, delays, in_windows, state_kinds_cut=True):
    """Static timing windows per line.  in_windows: dict node.index -> (lo, hi) or None for interface
    sources.  Returns dict line.index -> (lo, hi) or None if no transition can occur on that line."""
    from . import ref
    io = set(n.index for n in circuit.io_nodes)
    win = {}
    busy = set()

    def lw(line):
        li = line.index
        if li in win: return win[li]
        if li in busy: raise ValueError('loop')
        busy.add(li)
        d = line.driver
        dl = delays[li] if li < len(delays) else np.zeros((2, 2))
        if ref.is_state(d.kind) or (d.index in io and not any(x is not None for x in d.ins)):
            w = in_windows.get(d.index)
        else:
            los, his = [], []
            for l in d.ins:
                if l is None: continue
                x = lw(l)
                if x is None: continue
                dd = np.asarray(delays[l.index])
                los.append(x[0] + float(dd.min())); his.append(x[1] + float(dd.max()))
            w = (min(los), max(his)) if los else None
        busy.discard(li)
        win[li] = w
        return w

    for l in circuit.lines: lw(l)
    return win
