"""Renderers from the netlist AST (mc.netlist.NL) to structural Verilog and ISCAS bench text, with
deviation-controlled rendering options.  The ground truth of every rendering is the AST itself."""
import itertools
import re

from . import ref
from .families import ARITY


def cell_map(lib):
    """primitive kind -> (cell name, [input pin name by primitive operand position], output pin name),
    derived from the library's implementation circuits (single-primitive cells only).
    Also 'dff' -> (cell, {'D':..,'CLK':..,'Q':..,'QN':..})."""
    m = {}
    for name in sorted(lib.cells):
        impl, pins = lib.cells[name]
        cells = [n for n in impl.nodes if n.kind != '__fork__']
        outs = [p for p, (i, o) in pins.items() if o]
        if len(cells) != 1 or len(outs) != 1: continue
        g = cells[0]
        kind = g.kind.upper()
        if kind not in ARITY: continue
        if len(g.ins) != ARITY[kind] or any(l is None for l in g.ins): continue
        ops = []
        for l in g.ins:
            d = l.driver
            while d.kind == '__fork__' and len(d.ins) > 0 and d.ins[0] is not None: d = d.ins[0].driver
            ops.append(d.name)
        if len(set(ops)) != len(ops) or any(o not in pins for o in ops): continue
        if kind not in m: m[kind] = (name, ops, outs[0])
    return m


DFF_CELLS = {
    'SAED90': ('DFFX1', {'D': 'D', 'CLK': 'CLK', 'Q': 'Q', 'QN': 'QN'}),
    'SAED32': ('DFFX1_RVT', {'D': 'D', 'CLK': 'CLK', 'Q': 'Q', 'QN': 'QN'}),
    'NANGATE': ('DFF_X1', {'D': 'D', 'CLK': 'CK', 'Q': 'Q', 'QN': 'QN'}),
    'NANGATE_ZN': ('DFF_X1', {'D': 'D', 'CLK': 'CK', 'Q': 'Q', 'QN': 'QN'}),
    'GSC180': ('DFFX1', {'D': 'D', 'CLK': 'CK', 'Q': 'Q', 'QN': 'QN'}),
}


class VOpts:
    """rendering options; every field has a default, a deviation is any non-default value"""
    DEFAULTS = dict(
        in_decl='scalar',        # scalar | bus_desc | bus_asc | bus_mixed | bus_off (descending, lowest index 2)
        wire_decl='scalar',      # scalar | bus (internal wires are bits of one bus)
        out_ref='bit',           # bit | whole (a 1-bit output bus is referred to by its bare name)
        in_ref='bit',            # bit | whole | whole_off (a 1-bit input bus [0:0] / [2:2] is referred to by its bare name)
        out_decl='scalar',       # scalar | bus_desc | bus_asc
        port_order=0,            # index into permutations of the header port list
        stmt_order='decl_first', # decl_first | inst_first | interleaved | inst_reversed
        pin_order='fwd',         # fwd | rev | out_first
        out_style='direct',      # direct (gate drives the port name) | assign (internal wire + assign port = wire)
        escape=False,            # escaped identifiers for internal wires / instances
        noise='none',            # none | line_comment | block_comment | attribute | tabs_newlines | crlf
        redeclare=False,         # 'wire' re-declaration of ports
        const_style='pin',       # pin (1'b0 directly on pins) | bus (assign k = N'b...; then k[i])
        const_spelling='b',      # radix letter of sized constants: b | h | d | B | H | D
        open_pin='omit',         # omit | empty  (.P())
        assign_order='fwd',      # fwd | rev  (textual order of assign statements)
        alias_chain=False,       # route one output through a chain of two assigns
        concat_assign=False,     # drive output bus through one concatenation assign
        multi_module=False,      # the file holds a second module first, which declares the same names with the opposite directions
    )
    CHOICES = dict(
        in_decl=['bus_desc', 'bus_asc', 'bus_mixed', 'bus_off', 'bus_hi', 'bus_hi_asc'], wire_decl=['bus'], out_ref=['whole'], in_ref=['whole', 'whole_off'], out_decl=['bus_desc', 'bus_asc'], port_order=[1, 2, 3],
        stmt_order=['inst_first', 'interleaved', 'inst_reversed'], pin_order=['rev', 'out_first'], out_style=['assign'],
        escape=[True], noise=['line_comment', 'block_comment', 'star_comment', 'attribute', 'star_attribute', 'tabs_newlines', 'crlf'], redeclare=[True],
        const_style=['bus', 'bus4h', 'bus3d', 'alias', 'alias_rev', 'bus4h_lo', 'bus3d_hi', 'two_each'], const_spelling=['h', 'd', 'B', 'H', 'D'], open_pin=['empty'], assign_order=['rev'], alias_chain=[True, 'rev'], concat_assign=[True, 'vec_rhs', 'vec_lhs'], multi_module=[True],
    )

    def __init__(self, **kw):
        self.__dict__.update(self.DEFAULTS)
        self.__dict__.update(kw)

    def dev(self):
        return {k: v for k, v in self.__dict__.items() if self.DEFAULTS[k] != v}

    @staticmethod
    def enumerate(bound):
        yield VOpts()
        keys = list(VOpts.CHOICES)
        if bound >= 1:
            for k in keys:
                for v in VOpts.CHOICES[k]: yield VOpts(**{k: v})
        if bound >= 2:
            for k1, k2 in itertools.combinations(keys, 2):
                for v1 in VOpts.CHOICES[k1]:
                    for v2 in VOpts.CHOICES[k2]: yield VOpts(**{k1: v1, k2: v2})


def verilog(nl, cmap, dffcell, opts, const_gate_inputs=None):
    """Renders nl. Returns (text, port names in expected io order, {state k: instance name}).
    Inputs are named i<k> (or bits of bus i), outputs o<j> (or bits of bus o), a clock input 'clk' if there are states.
    A None operand is an open pin; an operand 'c0'/'c1' is a constant."""
    nI, nO = nl.n_in, len(nl.outs)
    if opts.in_ref != 'bit' and opts.in_decl in ('scalar', 'bus_mixed'):
        opts = VOpts(**dict(opts.__dict__, in_decl='bus_off' if opts.in_ref == 'whole_off' else 'bus_desc'))
    if (opts.concat_assign or opts.out_ref == 'whole') and opts.out_decl == 'scalar':
        # these two deviations only exist for an output bus: they imply the (descending) bus declaration
        opts = VOpts(**dict(opts.__dict__, out_decl='bus_desc'))
    esc = (lambda s: '\\' + s + '.x ') if opts.escape else (lambda s: s)
    # ---- names
    def in_name(k, port=False):
        if opts.in_ref != 'bit' and nI == 1 and not port: return 'i'          # the whole one-bit vector
        if opts.in_decl == 'scalar' or (opts.in_decl == 'bus_mixed' and k == nI - 1 and nI > 1): return f'i{k}'
        if opts.in_decl in ('bus_hi', 'bus_hi_asc'): return f'i[{k + 8}]'      # indices with one and with two digits: [n+7:8] / [8:n+7]
        return f'i[{k + 2}]' if opts.in_decl == 'bus_off' else f'i[{k}]'
    whole = opts.out_ref == 'whole' and nO == 1 and opts.out_decl != 'scalar'
    def out_name(j):
        if whole: return 'o'
        return f'o{j}' if opts.out_decl == 'scalar' else f'o[{j}]'
    readers = nl.readers()
    sig_name = {}
    for k in range(nI): sig_name[f'i{k}'] = in_name(k)
    # which signal drives output j directly (out_style direct): the port name becomes the net name if the signal is a
    # gate/state output that is not also an input and not already used as another port's name
    direct = {}
    if opts.out_style == 'direct' and not opts.concat_assign:
        for j, s in enumerate(nl.outs):
            if s[0] in 'gqn' and s not in direct and not (opts.alias_chain and j == 0): direct[s] = j
    for s in nl.signals():
        if s in sig_name: continue
        sig_name[s] = out_name(direct[s]) if s in direct else esc(f'w_{s}')
    sp = opts.const_spelling
    sig_name['c0'], sig_name['c1'] = f"1'{sp}0", f"1'{sp}1"
    decl, inst, assigns = [], [], []
    # ---- declarations
    nIbus = nI - 1 if (opts.in_decl == 'bus_mixed' and nI > 1) else nI
    if opts.in_decl == 'scalar': decl += [f'input i{k};' for k in range(nI)]
    else:
        rng = f'[{nIbus - 1}:0]' if opts.in_decl in ('bus_desc', 'bus_mixed') else (f'[{nIbus + 1}:2]' if opts.in_decl == 'bus_off' else f'[0:{nIbus - 1}]')
        if opts.in_decl == 'bus_hi': rng = f'[{nIbus + 7}:8]'
        if opts.in_decl == 'bus_hi_asc': rng = f'[8:{nIbus + 7}]'
        if nIbus > 0: decl.append(f'input {rng} i;')
        if opts.in_decl == 'bus_mixed' and nI > 1: decl.append(f'input i{nI - 1};')
    if nl.states: decl.append('input clk;')
    if opts.out_decl == 'scalar': decl += [f'output o{j};' for j in range(nO)]
    elif nO > 0: decl.append(f'output [{nO - 1}:0] o;' if opts.out_decl == 'bus_desc' else f'output [0:{nO - 1}] o;')
    if opts.redeclare:
        if opts.out_decl == 'scalar': decl += [f'wire o{j};' for j in range(nO)]
        elif nO > 0: decl.append(f'wire [{nO - 1}:0] o;' if opts.out_decl == 'bus_desc' else f'wire [0:{nO - 1}] o;')
    wsigs = [s for s in nl.signals() if s[0] != 'i' and s not in direct and s in readers]
    if opts.wire_decl == 'bus' and wsigs:
        for j, s in enumerate(wsigs): sig_name[s] = f'ww[{j}]'
        decl.append(f'wire [{len(wsigs) - 1}:0] ww;')
    else:
        for s in wsigs: decl.append(f'wire {sig_name[s]};')
    # ---- expected io order
    header = []
    if opts.in_decl == 'scalar': header += [f'i{k}' for k in range(nI)]
    else:
        if nIbus > 0: header.append('i')
        if opts.in_decl == 'bus_mixed' and nI > 1: header.append(f'i{nI - 1}')
    if nl.states: header.append('clk')
    header += [f'o{j}' for j in range(nO)] if opts.out_decl == 'scalar' else (['o'] if nO else [])
    perms = list(itertools.permutations(range(len(header)))) if len(header) <= 4 else \
        [tuple(range(len(header))), tuple(range(len(header)))[::-1], tuple(list(range(1, len(header))) + [0]), tuple([len(header) - 1] + list(range(len(header) - 1)))]
    perm = perms[opts.port_order * max(1, len(perms) // 4) % len(perms)] if opts.port_order else perms[0]
    header = [header[p] for p in perm]
    expected_ports = []
    for h in header:
        if h == 'i' and opts.in_decl != 'scalar':
            bits = range(nIbus - 1, -1, -1) if opts.in_decl in ('bus_desc', 'bus_mixed') else (range(nIbus + 1, 1, -1) if opts.in_decl == 'bus_off' else range(nIbus))
            if opts.in_decl == 'bus_hi': bits = range(nIbus + 7, 7, -1)
            if opts.in_decl == 'bus_hi_asc': bits = range(8, nIbus + 8)
            expected_ports += [f'i[{b}]' for b in bits]
        elif h == 'o' and opts.out_decl != 'scalar':
            bits = range(nO - 1, -1, -1) if opts.out_decl == 'bus_desc' else range(nO)
            expected_ports += [f'o[{b}]' for b in bits]
        else: expected_ports.append(h)
    # ---- constants via bus
    sp = opts.const_spelling
    if opts.const_style == 'bus':
        decl.append('wire [1:0] kk;')
        assigns.append({'b': "assign kk = 2'b10;", 'B': "assign kk = 2'B10;", 'h': "assign kk = 2'h2;", 'H': "assign kk = 2'H2;", 'd': "assign kk = 2'd2;", 'D': "assign kk = 2'D2;"}[sp])
        sig_name['c0'], sig_name['c1'] = 'kk[0]', 'kk[1]'
    elif opts.const_style in ('alias', 'alias_rev'):
        # the constants reach the pins through one more assign; alias_rev puts the aliases textually before the constant assign
        decl.append('wire [1:0] kk; wire kz, ko;')
        al = ['assign kz = kk[0];', 'assign ko = kk[1];']
        ka = "assign kk = 2'b10;"
        assigns += (al + [ka]) if opts.const_style == 'alias_rev' else ([ka] + al)
        sig_name['c0'], sig_name['c1'] = 'kz', 'ko'
    elif opts.const_style == 'bus4h':
        decl.append('wire [3:0] kk;')
        assigns.append(f"assign kk = 4'{'H' if sp.isupper() else 'h'}{'A' if sp.isupper() else 'a'};")
        sig_name['c0'], sig_name['c1'] = 'kk[2]', 'kk[3]'
    elif opts.const_style == 'bus3d':
        decl.append('wire [2:0] kk;')
        assigns.append(f"assign kk = 3'{'D' if sp.isupper() else 'd'}5;")
        sig_name['c0'], sig_name['c1'] = 'kk[1]', 'kk[0]'
    elif opts.const_style == 'bus4h_lo':     # the used 1 is the lower of two 1 bits, the used 0 the upper of two 0 bits
        decl.append('wire [3:0] kk;')
        assigns.append("assign kk = 4'ha;")
        sig_name['c0'], sig_name['c1'] = 'kk[2]', 'kk[1]'
    elif opts.const_style == 'bus3d_hi':     # the used 1 is the upper of two 1 bits
        decl.append('wire [2:0] kk;')
        assigns.append("assign kk = 3'd5;")
        sig_name['c0'], sig_name['c1'] = 'kk[1]', 'kk[2]'
    elif opts.const_style == 'two_each':     # several scalar constant assigns of each value; the last of each is used
        decl.append('wire k1a, k1b, k0a, k0b;')
        assigns += ["assign k1a = 1'b1;", "assign k0a = 1'b0;", "assign k1b = 1'b1;", "assign k0b = 1'b0;"]
        sig_name['c0'], sig_name['c1'] = 'k0b', 'k1b'
    # ---- instances
    def pins_text(pairs):
        if opts.pin_order == 'rev': pairs = pairs[::-1]
        elif opts.pin_order == 'out_first': pairs = pairs[-1:] + pairs[:-1]
        out = []
        for p, s in pairs:
            if s is None:
                if opts.open_pin == 'empty': out.append(f'.{p}()')
                continue
            out.append(f'.{p}({s})')
        return ', '.join(out)
    inst_names = {}
    for k, (kind, ops) in enumerate(nl.gates):
        cell, ipins, opin = cmap[kind.upper()]
        pairs = [(ipins[p], None if o is None else sig_name[o]) for p, o in enumerate(ops)]
        gname = f'g{k}'
        outsig = sig_name[gname] if (gname in readers) else None
        pairs.append((opin, outsig))
        inst.append(f'{cell} {esc("u_" + gname)} ({pins_text(pairs)});')
    for k, (skind, d) in enumerate(nl.states):
        cell, pm = dffcell
        iname = f's{k}.x' if opts.escape else f's{k}'
        pairs = [(pm['D'], sig_name[d]), (pm['CLK'], 'clk'), (pm['Q'], sig_name[f'q{k}'] if f'q{k}' in readers else None),
                 (pm['QN'], sig_name[f'n{k}'] if f'n{k}' in readers else None)]
        inst.append(f'{cell} {(chr(92) + iname + chr(9)) if opts.escape else iname} ({pins_text(pairs)});')
        inst_names[k] = iname
    # ---- output assigns
    out_assign = []
    pending = [(j, s) for j, s in enumerate(nl.outs) if direct.get(s) != j]
    if opts.concat_assign and nO >= 2 and opts.out_decl != 'scalar':
        order = range(nO - 1, -1, -1) if opts.out_decl == 'bus_desc' else range(nO)
        order = list(order)
        if opts.concat_assign is True:
            out_assign.append('assign o = {' + ', '.join(sig_name[nl.outs[j]] for j in order) + '};')
        else:
            # whole (unindexed) vectors inside the concatenation: cv carries all but the last position, xw the last one
            m = nO - 1
            decl.append((f'wire [{m - 1}:0] cv;' if opts.out_decl == 'bus_desc' else f'wire [0:{m - 1}] cv;') + ' wire xw;')
            cvbits = [f'cv[{b}]' for b in (range(m - 1, -1, -1) if opts.out_decl == 'bus_desc' else range(m))]
            if opts.concat_assign == 'vec_rhs':
                out_assign += [f'assign {cvbits[t]} = {sig_name[nl.outs[order[t]]]};' for t in range(m)]
                out_assign.append(f'assign xw = {sig_name[nl.outs[order[m]]]};')
                out_assign.append('assign o = {cv, xw};')
            else:   # vec_lhs
                out_assign.append('assign {cv, xw} = {' + ', '.join(sig_name[nl.outs[j]] for j in order) + '};')
                out_assign += [f'assign {out_name(order[t])} = {cvbits[t]};' for t in range(m)]
                out_assign.append(f'assign {out_name(order[m])} = xw;')
        pending = []
    for j, s in pending:
        if opts.alias_chain and j == 0:
            decl.append('wire al0, al1;')
            chain = [f'assign al0 = {sig_name[s]};', 'assign al1 = al0;', f'assign {out_name(j)} = al1;']
            out_assign += chain[::-1] if opts.alias_chain == 'rev' else chain
        else:
            out_assign.append(f'assign {out_name(j)} = {sig_name[s]};')
    assigns += out_assign
    if opts.assign_order == 'rev': assigns = assigns[::-1]
    # ---- statement order
    if opts.stmt_order == 'decl_first': body = decl + assigns + inst
    elif opts.stmt_order == 'inst_first': body = inst + assigns + decl
    elif opts.stmt_order == 'inst_reversed': body = decl + inst[::-1] + assigns
    else:
        body = []
        rest = [assigns, inst]
        for x in itertools.zip_longest(decl, inst, assigns):
            body += [y for y in x if y is not None]
    text = f'module top ({", ".join(header)});\n' + '\n'.join('  ' + b for b in body) + '\nendmodule\n'
    if opts.multi_module and opts.in_decl == 'scalar' and opts.out_decl == 'scalar' and nI >= 1 and nO >= 1 and 'INV1' in cmap:
        # every module of a file is translated on its own: declarations of an earlier module do not carry over
        icell, ipins, opin = cmap['INV1']
        others = [f'i{k}' for k in range(1, nI)] + [f'o{j}' for j in range(1, nO)] + (['clk'] if nl.states else [])
        decoy = (f'module decoy ({", ".join(["o0", "i0"] + others)});\n  input o0;\n  output i0;\n' + ''.join(f'  input {x};\n' for x in others)
                 + f'  {icell} u_d (.{ipins[0]}(o0), .{opin}(i0));\nendmodule\n\n')
        text = decoy + text
    text = add_noise(text, opts.noise)
    return text, expected_ports, inst_names, [in_name(k, port=True) for k in range(nI)], [('o[0]' if whole else out_name(j)) for j in range(nO)]


def add_noise(text, noise):
    if noise == 'none': return text
    if noise == 'line_comment':
        return '// leading comment\n' + re.sub(r';\n', '; // trailing comment ; with semicolon\n', text)
    if noise == 'block_comment':
        return '/* header */\n' + text.replace('(', '( /* c */ ').replace(';\n', '; /* multi\n line * comment */\n')
    if noise == 'star_comment':     # comments whose delimiters touch further stars
        return '/** header **/\n/***/\n' + text.replace(';\n', '; /** doc **/\n', 2).replace(';\n', '; /*****/ /* a * b ** c */\n')
    if noise == 'star_attribute':
        return '(* top = 1 **)\n' + text.replace('\n  ', '\n  (** keep *)\n  ', 2).replace('\n  ', '\n  (* a * b **)\n  ')
    if noise == 'attribute':
        return '(* top = 1 *)\n' + text.replace('\n  ', '\n  (* src = "x.v:1" *)\n  ')
    if noise == 'tabs_newlines':
        return text.replace(', ', ' ,\n\t').replace('(', ' (\t').replace(')', '\n )')
    if noise == 'crlf':
        return text.replace('\n', '\r\n')
    return text


# ---------------------------------------------------------------------------- bench

class BOpts:
    DEFAULTS = dict(keyword='upper', order='io_first', comments=False, spacing='normal', multi_io=False)
    CHOICES = dict(keyword=['lower'], order=['gates_first', 'reversed', 'outputs_first'], comments=[True], spacing=['tight', 'wide'], multi_io=[True])

    def __init__(self, **kw):
        self.__dict__.update(self.DEFAULTS); self.__dict__.update(kw)

    def dev(self): return {k: v for k, v in self.__dict__.items() if self.DEFAULTS[k] != v}

    @staticmethod
    def enumerate(bound):
        yield BOpts()
        keys = list(BOpts.CHOICES)
        if bound >= 1:
            for k in keys:
                for v in BOpts.CHOICES[k]: yield BOpts(**{k: v})
        if bound >= 2:
            for k1, k2 in itertools.combinations(keys, 2):
                for v1 in BOpts.CHOICES[k1]:
                    for v2 in BOpts.CHOICES[k2]: yield BOpts(**{k1: v1, k2: v2})


def bench_ok(nl):
    """bench can express only fully connected gates, outputs that are gate/state signals, each once"""
    if any(o is None or o in ('c0', 'c1') for _, ops in nl.gates for o in ops): return False
    if any(s[0] == 'i' for s in nl.outs) or len(set(nl.outs)) != len(nl.outs): return False
    if any(k != 'dff' for k, _ in nl.states): return False
    return True


def bench(nl, opts):
    """Returns (text, expected io names in order, {state k: node name})."""
    kw_in, kw_out = ('INPUT', 'OUTPUT') if opts.keyword == 'upper' else ('input', 'output')
    name = {}
    for k in range(nl.n_in): name[f'i{k}'] = f'i{k}'
    for k in range(len(nl.gates)): name[f'g{k}'] = f'g{k}'
    for k in range(len(nl.states)): name[f'q{k}'] = f'q{k}'; name[f'n{k}'] = f'qn{k}'
    sp = {'normal': ('', ' ', ', '), 'tight': ('', '', ','), 'wide': ('  ', '  ', ' ,  ')}[opts.spacing]
    def call(kind, args): return f'{kind}{sp[0]}({sp[2].join(args)})'
    ins = [f'i{k}' for k in range(nl.n_in)]
    outs = [name[s] for s in nl.outs]
    if opts.multi_io:
        io_in = [call(kw_in, ins)] if ins else []
        io_out = [call(kw_out, outs)] if outs else []
    else:
        io_in = [call(kw_in, [x]) for x in ins]
        io_out = [call(kw_out, [x]) for x in outs]
    gates = []
    used_n = {o for _, ops in nl.gates for o in ops if o and o[0] == 'n'} | {s for s in nl.outs if s[0] == 'n'} | {d for _, d in nl.states if d[0] == 'n'}
    for k, (kind, ops) in enumerate(nl.gates):
        gates.append(f'g{k}{sp[1]}={sp[1]}{call(kind, [name[o] for o in ops])}')
    for k, (_, d) in enumerate(nl.states):
        gates.append(f'q{k}{sp[1]}={sp[1]}{call("DFF", [name[d]])}')
        if f'n{k}' in used_n: gates.append(f'qn{k}{sp[1]}={sp[1]}{call("NOT", [f"q{k}"])}')
    if opts.order == 'io_first': lines = io_in + io_out + gates; io = ins + outs
    elif opts.order == 'gates_first': lines = gates + io_in + io_out; io = ins + outs
    elif opts.order == 'outputs_first': lines = io_out + io_in + gates; io = outs + ins
    else: lines = gates[::-1] + io_out[::-1] + io_in[::-1]; io = (outs if opts.multi_io else outs[::-1]) + (ins if opts.multi_io else ins[::-1])
    if opts.comments:
        lines = ['# generated netlist', '#'] + [l + '  # c' if i % 2 else l for i, l in enumerate(lines)] + ['# end']
    return '\n'.join(lines) + '\n', io, {k: f'q{k}' for k in range(len(nl.states))}
