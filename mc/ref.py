"""Reference semantics, written from the property statements and the public
documentation only.  Nothing in here imports kyupy.sim / kyupy.logic.

2-valued: Python integers as bit-vectors (one bit per pattern).
8-valued: codes 0..7 as documented in the package docs:
    bit0 final, bit1 initial, bit2 activity; 0b001 = X (unknown), 0b010 = '-' (unassigned).
"""
import itertools
import re

ZERO, UNKNOWN, UNASSIGNED, ONE, PPULSE, RISE, FALL, NPULSE = range(8)
CHARS = '0X-1PRFN'

# --------------------------------------------------------------------------
# kind table
# --------------------------------------------------------------------------

VARIADIC = ('nand', 'nor', 'and', 'or', 'xnor', 'xor')
FIXED = {  # name -> number of pins
    'ao211': 4, 'oa211': 4, 'aoi211': 4, 'oai211': 4,
    'ao22': 4, 'aoi22': 4, 'oa22': 4, 'oai22': 4,
    'ao21': 3, 'aoi21': 3, 'oa21': 3, 'oai21': 3,
    'mux21': 3,
}
UNARY_INV = ('not', 'inv', 'ibuf', '__const1__', 'tieh')
UNARY_BUF = ('buf', 'nbuf', 'delln', '__const0__', 'tiel')

PRIMITIVES_33 = (
    ['BUF1', 'INV1'] +
    [f'{f}{n}' for f in ('AND', 'NAND', 'OR', 'NOR', 'XOR', 'XNOR') for n in (2, 3, 4)] +
    ['AO21', 'AOI21', 'OA21', 'OAI21', 'AO22', 'AOI22', 'OA22', 'OAI22',
     'AO211', 'AOI211', 'OA211', 'OAI211', 'MUX21'])
assert len(PRIMITIVES_33) == 33


def family(kind):
    """Returns (family, shape) for a node kind; shape is 'var', 'unary' or the pin count."""
    k = kind.lower()
    for f in ('isolor',):
        if k.startswith(f): return 'or', 'var2'
    for f in sorted(FIXED, key=len, reverse=True):
        if k.startswith(f): return f, FIXED[f]
    for f in sorted(UNARY_INV + UNARY_BUF, key=len, reverse=True):
        if k.startswith(f): return ('inv' if f in UNARY_INV else 'buf'), 'unary'
    for f in sorted(VARIADIC, key=len, reverse=True):
        if k.startswith(f): return f, 'var'
    return None, None


def effective_operands(kind, pins):
    """pins: list of operand values-or-None by pin position.  Returns (family, operand list with
    None for unconnected pins inside the gate's range)."""
    fam, shape = family(kind)
    if fam is None:
        raise KeyError(kind)
    pins = list(pins) + [None] * (4 - len(pins))
    if shape == 'unary':
        return fam, pins[:1]
    if shape == 'var2':
        return fam, pins[:2]
    if shape == 'var':
        n = 4 if pins[3] is not None else 3 if pins[2] is not None else 2
        return fam, pins[:n]
    return fam, pins[:shape]


# --------------------------------------------------------------------------
# 2-valued (bit-vector) semantics
# --------------------------------------------------------------------------

def f2(fam, v, mask):
    """Boolean function of family on operand list v (ints), result masked."""
    def AND(x):
        r = mask
        for a in x: r &= a
        return r
    def OR(x):
        r = 0
        for a in x: r |= a
        return r
    def XOR(x):
        r = 0
        for a in x: r ^= a
        return r
    N = lambda a: ~a & mask
    if fam == 'buf': return v[0] & mask
    if fam == 'inv': return N(v[0])
    if fam == 'and': return AND(v)
    if fam == 'nand': return N(AND(v))
    if fam == 'or': return OR(v) & mask
    if fam == 'nor': return N(OR(v))
    if fam == 'xor': return XOR(v) & mask
    if fam == 'xnor': return N(XOR(v))
    if fam == 'ao21': return ((v[0] & v[1]) | v[2]) & mask
    if fam == 'aoi21': return N((v[0] & v[1]) | v[2])
    if fam == 'oa21': return ((v[0] | v[1]) & v[2]) & mask
    if fam == 'oai21': return N((v[0] | v[1]) & v[2])
    if fam == 'ao22': return ((v[0] & v[1]) | (v[2] & v[3])) & mask
    if fam == 'aoi22': return N((v[0] & v[1]) | (v[2] & v[3]))
    if fam == 'oa22': return ((v[0] | v[1]) & (v[2] | v[3])) & mask
    if fam == 'oai22': return N((v[0] | v[1]) & (v[2] | v[3]))
    if fam == 'ao211': return ((v[0] & v[1]) | v[2] | v[3]) & mask
    if fam == 'aoi211': return N((v[0] & v[1]) | v[2] | v[3])
    if fam == 'oa211': return ((v[0] | v[1]) & v[2] & v[3]) & mask
    if fam == 'oai211': return N((v[0] | v[1]) & v[2] & v[3])
    if fam == 'mux21': return ((v[0] & N(v[2])) | (v[1] & v[2])) & mask
    raise KeyError(fam)


def gate2(kind, pins, mask):
    fam, ops = effective_operands(kind, pins)
    return f2(fam, [0 if o is None else o for o in ops], mask)


# --------------------------------------------------------------------------
# 8-valued algebra (scalar), from the documentation
# --------------------------------------------------------------------------

def is_unk(c): return c == UNKNOWN or c == UNASSIGNED
def comp(c): return ((c >> 1) & 1, c & 1, (c >> 2) & 1)  # initial, final, activity
def mk(i, f, a):
    if not a and i != f:
        # cannot happen for results of the operators below; guard anyway
        raise AssertionError('inactive value with differing components')
    return (a << 2) | (i << 1) | f


def not8(c):
    if is_unk(c): return UNKNOWN
    i, f, a = comp(c)
    return mk(1 - i, 1 - f, a)


def and8(ops):
    if any(c == ZERO for c in ops): return ZERO
    if any(is_unk(c) for c in ops): return UNKNOWN
    i = f = 1; a = 0
    for c in ops:
        ci, cf, ca = comp(c)
        i &= ci; f &= cf; a |= ca
    return mk(i, f, a)


def or8(ops):
    if any(c == ONE for c in ops): return ONE
    if any(is_unk(c) for c in ops): return UNKNOWN
    i = f = 0; a = 0
    for c in ops:
        ci, cf, ca = comp(c)
        i |= ci; f |= cf; a |= ca
    return mk(i, f, a)


def xor8(ops):
    if any(is_unk(c) for c in ops): return UNKNOWN
    i = f = a = 0
    for c in ops:
        ci, cf, ca = comp(c)
        i ^= ci; f ^= cf; a |= ca
    return mk(i, f, a)


def f8(fam, v):
    if fam == 'buf': return v[0]
    if fam == 'inv': return not8(v[0])
    if fam == 'and': return and8(v)
    if fam == 'nand': return not8(and8(v))
    if fam == 'or': return or8(v)
    if fam == 'nor': return not8(or8(v))
    if fam == 'xor': return xor8(v)
    if fam == 'xnor': return not8(xor8(v))
    if fam == 'ao21': return or8([and8(v[0:2]), v[2]])
    if fam == 'aoi21': return not8(or8([and8(v[0:2]), v[2]]))
    if fam == 'oa21': return and8([or8(v[0:2]), v[2]])
    if fam == 'oai21': return not8(and8([or8(v[0:2]), v[2]]))
    if fam == 'ao22': return or8([and8(v[0:2]), and8(v[2:4])])
    if fam == 'aoi22': return not8(or8([and8(v[0:2]), and8(v[2:4])]))
    if fam == 'oa22': return and8([or8(v[0:2]), or8(v[2:4])])
    if fam == 'oai22': return not8(and8([or8(v[0:2]), or8(v[2:4])]))
    if fam == 'ao211': return or8([and8(v[0:2]), v[2], v[3]])
    if fam == 'aoi211': return not8(or8([and8(v[0:2]), v[2], v[3]]))
    if fam == 'oa211': return and8([or8(v[0:2]), v[2], v[3]])
    if fam == 'oai211': return not8(and8([or8(v[0:2]), v[2], v[3]]))
    if fam == 'mux21': return or8([and8([v[0], not8(v[2])]), and8([v[1], v[2]])])
    raise KeyError(fam)


_TABLES = {}


def table8(fam, n):
    """numpy lookup table of shape (8,)*n for family with n operands (built from the scalar algebra)."""
    import numpy as np
    key = (fam, n)
    if key not in _TABLES:
        t = np.zeros((8,) * n, dtype=np.uint8)
        for idx in itertools.product(range(8), repeat=n):
            t[idx] = f8(fam, list(idx))
        _TABLES[key] = t
    return _TABLES[key]


def gate8(kind, pins, shape=None):
    """pins: list of numpy code arrays or None. Returns numpy array of codes."""
    import numpy as np
    fam, ops = effective_operands(kind, pins)
    shape = next((o.shape for o in ops if o is not None), shape or (1,))
    ops = [np.zeros(shape, dtype=np.uint8) if o is None else o for o in ops]
    return table8(fam, len(ops))[tuple(ops)]


def same_mod_unknown(a, b):
    """Element-wise equality of code arrays after identifying X and '-'."""
    import numpy as np
    a = np.where(a == UNASSIGNED, UNKNOWN, a)
    b = np.where(b == UNASSIGNED, UNKNOWN, b)
    return a == b


# --------------------------------------------------------------------------
# reference evaluation of a kyupy-style circuit graph (own traversal; does not
# use Circuit.topological_order)
# --------------------------------------------------------------------------

def is_state(kind):
    k = kind.lower()
    return 'dff' in k or 'latch' in k


def graph_eval(circuit, assign, gate_fn, inv_fn, zero, override=None):
    """Evaluates every line of a kyupy Circuit.

    assign: dict node-index -> value for interface nodes that act as sources
            (io nodes without connected inputs, state elements).
    gate_fn(kind, pins) -> value ; inv_fn(value) -> value ; zero: the constant-0 value.
    override: optional dict line-index -> value; such a line is cut from its driver and carries the given value.
    Returns dict line-index -> value.  Raises ValueError on a combinational loop.
    """
    io = set(n.index for n in circuit.io_nodes)
    val = {}
    busy = set()

    def line_val(line):
        li = line.index
        if li in val: return val[li]
        if override is not None and li in override:
            val[li] = override[li]
            return val[li]
        if li in busy: raise ValueError('combinational loop')
        busy.add(li)
        d = line.driver
        if is_state(d.kind) or (d.index in io and not any(x is not None for x in d.ins)):
            # an interface node: all outputs carry the assigned value, 2nd output of a flip-flop inverted
            v = assign[d.index]
            if 'dff' in d.kind.lower() and line.driver_pin == 1 and v is not None:
                v = inv_fn(v)
        elif d.kind == '__fork__':
            v = line_val(d.ins[0]) if len(d.ins) > 0 and d.ins[0] is not None else (zero if d.index not in io else assign.get(d.index, zero))
        else:
            pins = [None if l is None else line_val(l) for l in d.ins]
            v = gate_fn(d.kind, pins)
        busy.discard(li)
        val[li] = v
        return v

    import sys
    sys.setrecursionlimit(max(10000, sys.getrecursionlimit()))
    for l in circuit.lines:
        line_val(l)
    return val
