#!/bin/sh
# Offline setup: nothing to build; verify the interpreter and its packages are present.
set -e
cd "$(dirname "$0")/.."
/venv/bin/python -c "import numpy, lark; print('numpy', numpy.__version__)"
mkdir -p evidence/replay
chmod +x check tools/*.sh tools/*.py 2>/dev/null || true
echo setup ok
