#!/venv/bin/python
"""Apply hand-written mutants (mutants/mutants.py) to a scratch copy of /repo/src and run checks on it.

usage: tools/mutate.py [--tests] [--tier quick] <mutant-id|all|prop:Cxx> ...
The scratch copy lives under /tmp/kyupy_mut_<pid>_<id> and is removed afterwards.
With --tests the pinned pytest suite is run on the mutated copy too (must still pass for a
realistic mutant).
"""
import os
import shutil
import subprocess
import sys

VERIF = os.path.dirname(os.path.dirname(os.path.abspath(__file__)))
sys.path.insert(0, VERIF)
from mutants.mutants import MUTANTS  # noqa


def run_one(mid, m, run_tests, tier):
    scratch = f'/tmp/kyupy_mut_{os.getpid()}_{mid}'
    shutil.rmtree(scratch, ignore_errors=True)
    shutil.copytree('/repo', scratch, ignore=shutil.ignore_patterns('.git', '__pycache__', '*.gz', '.pytest_cache'))
    try:
        for (fn, old, new) in m['edits']:
            p = os.path.join(scratch, 'src/kyupy', fn)
            s = open(p).read()
            if s.count(old) != 1:
                return f'{mid}: EDIT-FAILED ({s.count(old)} matches in {fn})'
            open(p, 'w').write(s.replace(old, new))
        out = []
        if run_tests:
            # link the big test inputs instead of copying
            for f in os.listdir('/repo/tests'):
                if f.endswith('.gz'):
                    os.symlink(os.path.join('/repo/tests', f), os.path.join(scratch, 'tests', f))
            env = dict(os.environ, PYTHONPATH=os.path.join(scratch, 'src'))
            r = subprocess.run(['/venv/bin/python', '-m', 'pytest', '-q', '-p', 'no:cacheprovider', '-x', '-n', '8', '--timeout=900'],
                               cwd=scratch, env=env, capture_output=True, text=True)
            tail = r.stdout.strip().splitlines()[-1] if r.stdout.strip() else r.stderr[-200:]
            out.append(f'tests: rc={r.returncode} {tail}')
        for prop in m['props']:
            env = dict(os.environ, KYUPY_SRC=os.path.join(scratch, 'src'), VERIF_EVIDENCE_DIR=os.path.join(scratch, 'evidence'))
            r = subprocess.run([os.path.join(VERIF, 'check'), prop, '--tier', tier], cwd=VERIF, env=env, capture_output=True, text=True)
            nv = sum(1 for l in r.stdout.splitlines() if l.startswith('VIOLATION'))
            verdict = 'CAUGHT' if r.returncode == 1 and nv else ('HARNESS-ERROR' if r.returncode == 2 else 'MISSED')
            first = next((l for l in r.stdout.splitlines() if l.startswith('  C')), '')
            out.append(f'{prop}: {verdict} rc={r.returncode} violations={nv} {first[:160]}')
        return f'{mid} ({m["desc"]}): ' + ' | '.join(out)
    finally:
        shutil.rmtree(scratch, ignore_errors=True)


def main():
    args = sys.argv[1:]
    run_tests = '--tests' in args
    tier = 'quick'
    if '--tier' in args:
        tier = args[args.index('--tier') + 1]
        del args[args.index('--tier'):args.index('--tier') + 2]
    args = [a for a in args if a != '--tests']
    ids = []
    for a in args:
        if a == 'all': ids += list(MUTANTS)
        elif a.startswith('prop:'): ids += [k for k, m in MUTANTS.items() if a[5:] in m['props']]
        else: ids.append(a)
    from concurrent.futures import ThreadPoolExecutor
    with ThreadPoolExecutor(max_workers=2) as ex:
        for line in ex.map(lambda i: run_one(i, MUTANTS[i], run_tests, tier), ids):
            print(line, flush=True)


if __name__ == '__main__':
    main()
