#!/usr/bin/env python3
"""Regenerates seeded/README.md from the meta.json files."""
import glob
import json
import os
import re

V = os.path.dirname(os.path.dirname(os.path.abspath(__file__)))
rows = []
for p in glob.glob(os.path.join(V, 'seeded', '*', 'meta.json')):
    rows.append(json.load(open(p)))
def order(m):
    w, rest = m['id'].split('-', 1)
    return (int(w[1:]), rest)
rows.sort(key=order)
head = open(os.path.join(V, 'seeded', 'README.md')).read().split('| id |')[0]
out = [head.rstrip('\n'), '', '| id | property | change | needs | quick-tier verdicts | history |', '|---|---|---|---|---|---|']
esc = lambda s: str(s).replace('|', '\\|').replace('\n', ' ')
for m in rows:
    verdicts = ', '.join(f"{r['check']}: {r['verdict']}" for r in m.get('ran', []))
    out.append(f"| {m['id']} | {m['property']} | {esc(m.get('change', ''))} | {esc(m.get('needs_to_manifest', ''))} | {verdicts} | {esc(m.get('history', ''))} |")
open(os.path.join(V, 'seeded', 'README.md'), 'w').write('\n'.join(out) + '\n')
print(len(rows), 'entries')
