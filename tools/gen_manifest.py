#!/usr/bin/env python3
"""Generates /verif/MANIFEST.json from the table below (one source of truth)."""
import json, os, sys

VERIF = os.path.dirname(os.path.dirname(os.path.abspath(__file__)))

# id -> (level, technique, level text, level note, design_ref)
CHECKS = {
 'C01': ('exploration', 'bounded exhaustive input-space enumeration vs. reference evaluator',
         'every circuit of families T1-T4 (all 33 primitives + aliases x all operand tuples incl. unconnected pins, all two-gate '
         'compositions, all small structural netlists with state elements) is simulated on ALL 0/1 assignments, batch windows '
         '1..17 and 1..3 clock cycles and compared with an independent gate-by-gate evaluator; small-scope exhaustive, not sampled',
         'trusted: the reference evaluator in mc/ref.py and mc/netlist.py; numba absent so kernels run as plain Python; bounds in evidence',
         'DESIGN.md section 4 C01'),

 'C12': ('exploration', 'complete enumeration of the operand space vs. reference algebra',
         'all 8^k (k=1..4) operand tuples of NOT/AND/OR/XOR in both storage formats, all 4^k for the 4-valued operators, every tuple in '
         'every lane 0..8, array shapes/broadcasting and out= variants are executed; the operand space is finite and fully enumerated',
         'trusted: scalar algebra in mc/ref.py written from the module docstring; results compared modulo X/- against it, array vs bit-parallel exactly',
         'DESIGN.md section 4 C12'),
 'C15': ('exploration', 'complete enumeration of small arrays/strings + structured fills',
         'all strings up to length 4, all arrays with <= 4 elements over 8 values, single-position fills for shapes up to (3,17)/(2,3,9)/(1,2,2,17), '
         'all 8/16-bit values of every integer dtype and bit-pattern families for 32/64 bit, all byte values for popcount',
         'trusted: the harness bit packing in checks/c15.py; non-contiguous arrays and >2-D string rendering are outside the stated domain',
         'DESIGN.md section 4 C15'),
 'C19': ('exploration', 'complete enumeration of all library cells x all input combinations',
         'all 1026 names (re-derived independently from the library text) get the pin-table checks; all 656 names of the listed combinational '
         'families are evaluated on all 2^n inputs against a datasheet function table; fully exhaustive',
         'trusted: datasheet table in checks/c19.py; reference graph evaluator; unlisted families get pin checks only',
         'DESIGN.md section 4 C19'),

 'C17': ('exploration', 'small-scope complete graph enumeration vs. own Kahn/longest-path/reachability oracles',
         'every graph with up to 4 nodes (combinational / dff / latch) and bounded line count, with explicit reader pins so every unconnected-pin '
         'pattern occurs, is traversed by all five iterators and for all 2^N fan-in origin sets; every pool of <= 5 port/state names from seven '
         'index schemes x declaration orders x all prefixes is looked up',
         'trusted: the oracles in checks/c17.py; fan-in accepts both readings for state elements (exact on combinational graphs); D8 prefixes',
         'DESIGN.md section 4 C17'),

 'C02': ('exploration', 'bounded exhaustive input-space enumeration vs. reference algebra + direct X-soundness over all completions',
         'every T1/T2/T3/T4 circuit is simulated on ALL 4^n and 8^n assignments (n <= 4) in 4- and 8-valued mode; captured values are compared with the '
         'reference algebra, every 0/1 result with every 0/1 completion of its unknown inputs, and initial/final components with the 2-valued reference',
         'trusted: mc/ref.py algebra; X and - identified; bounds on circuit size in evidence', 'DESIGN.md section 4 C02'),
 'C16': ('exploration', 'bounded exhaustive enumeration of (circuit, logic, stimulus, injected line, injected value) vs. cut-and-drive reference',
         'for every evaluated line of every circuit of the families, in all three logics and on all stimuli, the callback is used to record, to do '
         'nothing and to overwrite with each of four values; results are compared with a reference evaluation of the graph with that line cut',
         'trusted: mc/ref.py graph evaluator; memory reuse off; callback argument accepted as Line or index', 'DESIGN.md section 4 C16'),

 'C08': ('model_checking', 'explicit-state BFS over allocator histories on the real object + ownership interpretation of every memory map',
         'all alloc/free histories of sim.Heap up to depth 10-12 (sizes {1,2,3}, {4,8,12}, {1,2,3,4}, {1,2}; bounded live chunks) are executed on the real '
         'object with invariants and a lock-step interval-list reference model in every state; every memory map of the circuit families x capacity '
         'vectors x c_reuse x strip_forks is interpreted cell by cell (ownership) so that any overlap of live data is seen',
         'trusted: RefHeap and the ownership interpreter in checks/c08.py; canonical state = complete Heap state; TLC model replay is thorough-tier only',
         'DESIGN.md section 4 C08'),

 'C09': ('model_checking', 'explicit-state BFS over edit histories of the real Circuit with invariants and lock-step reference model',
         'all histories of public edit operations (12 operation kinds over pools of 2-3 fork and 2-3 cell names) from the empty circuit up to depth 6 (quick) / 7 (thorough) '
         'and from seeded non-initial states are executed on the real object by history replay; states are deduplicated on the full observable structure; '
         'every transition is checked against structural invariants and a dict/list reference netlist',
         'trusted: invariants and Model in checks/c09.py; only well-formed operations are generated (listed in the evidence assumptions)',
         'DESIGN.md section 4 C09'),
 'C10': ('exploration', 'bounded exhaustive enumeration of transformations vs. reference truth tables',
         'every family circuit x style x every transformation sequence of length <= 2; every implementation shape with <= 2 gates x every subset of connected '
         'instance pins x 3 contexts; every library cell x pin subsets; all orders of multi-instance designs with empty implementations; compared by '
         'truth table over ports and state elements, names/order, and the C09 invariants',
         'trusted: reference graph evaluator; two readings accepted for an open input of a variadic gate', 'DESIGN.md section 4 C10'),

 'C03': ('exploration', 'bounded exhaustive enumeration at kernel and simulator seams vs. Boolean reference on initial/final values',
         'W1: every primitive x every tuple of input waveforms over a time grid x delay-table combinations x output capacities (incl. overflowing ones) through the real '
         'kernel function; W2: family circuits x all {0,1,R,F} stimuli and multi-transition inputs x deviation-bounded delay plans x capacity vectors through WaveSim; '
         'every line waveform is decoded and checked for initial value, parity-final value and terminator',
         'trusted: mc/ref.py Boolean reference, waveform decoder in mc/wsim.py; dyadic times (exact arithmetic); memory reuse off', 'DESIGN.md section 4 C03'),

 'C04': ('exploration', 'bounded exhaustive enumeration with metamorphic reruns (shift, power-of-two scale) and static-timing oracle',
         'same kernel and simulator spaces as C03; every case is checked against the static-timing window computed by the harness, re-run with all inputs shifted and '
         'with all times and delays scaled by powers of two (results must move exactly), and checked for strictly increasing timestamps under polarity-independent delays',
         'trusted: window computation in mc/wsim.py; exactness relies on dyadic values', 'DESIGN.md section 4 C04'),

 'C13': ('exploration', 'bounded exhaustive enumeration: capture function on all waveforms x times; kernel counts/overflow vs unlimited capacity; simulator x accumulation tables',
         'every waveform over a 4-point grid (both terminators) x 17 capture times through the real capture function; the C03 kernel space with rise/fall counts compared to the decoded '
         'output and to a capacity-64 run; family circuits x stimuli x delays x capacities x capture times x seven accumulation-control table shapes (both heights) through WaveSim',
         'trusted: waveform decoder and summary() in the harness; sd = 0 only', 'DESIGN.md section 4 C13'),

 'C05': ('exploration', 'bounded exhaustive differential enumeration between the two real simulators',
         'family circuits x all {0,1,R,F} stimuli with times {1,3} x delay plans x capacities x all 16 combinations of c_reuse/strip_forks on both simulators; port values, '
         'hazard-freeness of plain constants and (without reuse) every internal line are compared',
         'trusted: waveform decoder; LogicSim(m=8) itself is tied to the algebra by C02', 'DESIGN.md section 4 C05'),

 'C06': ('exploration', 'bounded exhaustive differential enumeration over the configuration lattice',
         'family circuits x all {0,1,R,F} stimuli x delay plans x capacities, each run under every combination of c_reuse/strip_forks/CPU-vs-GPU-kernel path, four lane allocations, '
         'lane permutations, c_prop(sims=k), global and per-lane delay dataset selection and a_ctrl, and compared bit for bit with a baseline run; LogicSim options for m = 2/4/8 on all stimuli',
         'trusted: baseline configuration is tied to the reference by C01-C03; GPU path = kernels under MockCuda', 'DESIGN.md section 4 C06'),

 'C07': ('model_checking', 'schedule exploration: all per-level op permutations and GPU thread orders on the real code + logged-access conflict detection',
         'for every circuit/config/level, every permutation of the level (n! up to 6 ops, generating set above) is executed through the real LogicSim and WaveSim level code and every '
         'order of the effective (lane, op) threads of each GPU launch (n! up to 6 threads) through the real kernel under a controlled launcher, comparing the memory image after the level; '
         'read/write sets of all threads are logged and checked pairwise for conflicts, which extends the result to instruction-level interleavings; plus the static partition check',
         'trusted: compositional and independence arguments stated in the evidence assumptions; Python semantics of the kernels (no real CUDA memory model)', 'DESIGN.md section 4 C07'),

 'C11': ('exploration', 'bounded enumeration of netlists x textual renderings (deviation-bounded) vs. AST truth tables',
         'every AST of the parser family is rendered for all five libraries under the default rendering and every single deviation of 14 rendering options (all pairs in the thorough tier), '
         'with and without branch forks, parsed, resolved and compared by port order and truth table with the AST; primitive-only ASTs additionally through the bench format and across formats',
         'trusted: renderer (mc/render.py) and reference evaluator; a bounded set of rendering deviations, not all texts', 'DESIGN.md section 4 C11'),

 'C14': ('exploration', 'bounded enumeration of SDF ASTs x designs vs. expected delay array',
         'for 3 libraries x 5 small designs x branchforks x escaped names: all subsets and (<= 4 entries) all orders of IOPATH entries, every single deviation of edge qualifier and value form per entry, '
         'duplicates, three CELL groupings incl. repeated blocks, interconnect entries in one/several top-level blocks incl. zero-valued; parsed arrays compared element by element with the array built from the AST',
         'trusted: SDF renderer and expected-array builder in checks/c14.py; library pin tables (C19)', 'DESIGN.md section 4 C14'),

 'C18': ('exploration', 'bounded enumeration of scan designs x STIL ASTs vs. expected pattern arrays',
         '6 scan designs (chain lengths 1-3, two chains, shuffled node order, latch, library-style kinds) x every placement of inversion markers x every load string and every unload string '
         'for one pattern, N/X at each position, two-pattern sets, all permutations of the signal groups, three cell-name styles, launch-on-capture pattern sets with and without clock pulses; '
         'tests(), responses() and tests_loc() compared element by element with arrays built from the generator AST and a reference next-state evaluation',
         'trusted: STIL renderer and expected-array builder in checks/c18.py; reference graph evaluator', 'DESIGN.md section 4 C18'),

 'C20': ('exploration', 'bounded enumeration of DEF ASTs vs. attribute-by-attribute comparison',
         'every drop of <= 2 sections, every VIAS option subset of size <= 2 (+all), all component orientations, every pin option subset, and every routing item sequence up to length 3 (4 in thorough) '
         'over points with number/* coordinates, vias, oriented vias and via arrays with n, m in 1..3, in one or two wires per net, for special and regular nets, plus unrouted nets and comments; '
         'all extracted attributes, resolved via positions and per-layer wire listings compared with the AST',
         'trusted: DEF renderer and resolver in checks/c20.py; grammar-defined subset (non-negative coordinates)', 'DESIGN.md section 4 C20'),
}

NOT_YET = 'check under construction in this session (see DESIGN.md build order); will be claimed once its exhaustive check exists'


def main():
    props = [json.loads(l)['id'] for l in open(os.path.join(VERIF, 'properties.jsonl'))]
    checks = []
    for pid in props:
        if pid not in CHECKS: continue
        level, tech, text, note, ref = CHECKS[pid]
        checks.append({
            'property_id': pid,
            'quick_cmd': f'./check {pid} --tier quick',
            'thorough_cmd': f'./check {pid} --tier thorough --budget 1500',
            'evidence_file': f'/verif/evidence/{pid}.json',
            'replay_cmd_template': f'./check {pid} --replay {{path}}',
            'engine': 'mc',
            'level_claimed': {'category': level, 'text': text, 'design_ref': ref},
            'level_note': note,
            'technique': tech,
        })
    m = {
        'version': 1,
        'setup_cmd': 'cd /verif && ./tools/setup.sh',
        'hooks': {'guard': 'KYUPY_VERIF', 'enable': 'none needed: the harness imports kyupy from /repo/src (sys.path[0]) and reaches all seams from outside; KYUPY_VERIF=1 is exported by ./check but no source line depends on it',
                  'baseline_off_cmd': 'cd /repo && /venv/bin/python -m pytest -ra -q -p no:cacheprovider --timeout=900 --continue-on-collection-errors',
                  'source_commits': [], 'add_only': True},
        'engines': [
            {'name': 'mc', 'path': '/verif/mc', 'serves_properties': sorted(CHECKS),
             'kind_free_text': 'hand-written bounded exhaustive explorers for Python: E1 input-space enumerator, E2 explicit-state BFS over histories of the real object, E3 schedule explorer; TLC model + conformance replay for the allocator'},
        ],
        'checks': checks,
        'not_applicable': [{'property_id': p, 'reason': NOT_YET} for p in props if p not in CHECKS],
        'notes': 'Model checking = exhaustive enumeration of explicitly bounded spaces; bounds and counts are in each evidence file. Genuine defects found and repaired are listed in known_findings.json (status fixed).',
    }
    with open(os.path.join(VERIF, 'MANIFEST.json'), 'w') as f:
        json.dump(m, f, indent=1)
    print('wrote MANIFEST.json with', len(checks), 'checks')

if __name__ == '__main__':
    main()
