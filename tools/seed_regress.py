#!/venv/bin/python
"""Re-runs every seeded change against the quick checks that are recorded as catching it.

usage: tools/seed_regress.py [--jobs N] [--nproc M] [id-prefix ...]
For each seeded/<id>: scratch copy of the repository sources (REPO_SRC, default /repo), patch applied, ./check <prop> --tier quick
with KYUPY_SRC on the copy.  Prints one line per (seed, check) and a summary; exit 1 if a change that was caught is now missed.
Nothing is written to seeded/ or evidence/."""
import concurrent.futures as cf
import json
import os
import shutil
import subprocess
import sys
import tempfile

VERIF = os.path.dirname(os.path.dirname(os.path.abspath(__file__)))
REPO = os.environ.get('REPO_SRC', '/repo')


def run(sid, nproc):
    meta = json.load(open(os.path.join(VERIF, 'seeded', sid, 'meta.json')))
    checks = [r['check'] for r in meta.get('ran', []) if r['verdict'] == 'caught']
    scratch = tempfile.mkdtemp(prefix='kyupy_seedreg_')
    out = []
    try:
        shutil.copytree(os.path.join(REPO, 'src'), os.path.join(scratch, 'src'), ignore=shutil.ignore_patterns('__pycache__'))
        r = subprocess.run(['patch', '-p1', '-s', '-i', os.path.join(VERIF, 'seeded', sid, 'patch.diff')], cwd=scratch, capture_output=True, text=True)
        if r.returncode != 0:
            return [(sid, '-', 'patch-failed', r.stdout[-200:] + r.stderr[-200:])]
        for c in checks:
            env = dict(os.environ, KYUPY_SRC=os.path.join(scratch, 'src'), VERIF_EVIDENCE_DIR=os.path.join(scratch, 'ev'), VERIF_NPROC=str(nproc))
            p = subprocess.run([os.path.join(VERIF, 'check'), c, '--tier', 'quick'], cwd=VERIF, env=env, capture_output=True, text=True)
            nv = sum(1 for l in p.stdout.splitlines() if l.startswith('VIOLATION'))
            verdict = 'caught' if p.returncode == 1 and nv else ('harness-error' if p.returncode == 2 else 'missed')
            out.append((sid, c, verdict, (p.stderr[-300:] if verdict == 'harness-error' else '')))
    finally:
        shutil.rmtree(scratch, ignore_errors=True)
    return out


def main():
    args = sys.argv[1:]
    jobs, nproc = 4, 4
    while args and args[0].startswith('--'):
        if args[0] == '--jobs': jobs = int(args[1])
        if args[0] == '--nproc': nproc = int(args[1])
        args = args[2:]
    ids = sorted(d for d in os.listdir(os.path.join(VERIF, 'seeded')) if os.path.isdir(os.path.join(VERIF, 'seeded', d)))
    if args: ids = [i for i in ids if any(i.startswith(a) for a in args)]
    bad = 0
    with cf.ThreadPoolExecutor(jobs) as ex:
        for res in ex.map(lambda s: run(s, nproc), ids):
            for sid, c, verdict, note in res:
                print(f'{sid} {c} {verdict} {note}'.rstrip(), flush=True)
                if verdict != 'caught': bad += 1
    print(f'{len(ids)} seeded changes, {bad} not caught')
    return 1 if bad else 0


if __name__ == '__main__':
    sys.exit(main())
