#!/venv/bin/python
"""Confirm a seeded change delivered by a sub-agent and run the checks against it.

usage: tools/seedcheck.py <seed-id> <dir with patch.diff and demo.py> <property> [more properties to run]

Steps (all on a scratch copy of /repo under /tmp, removed afterwards):
  1. demo.py on the unchanged sources must exit 0
  2. apply patch.diff; the pinned test suite must still pass
  3. demo.py on the changed sources must exit != 0
  4. run ./check <prop> --tier quick with KYUPY_SRC pointing at the changed sources
Writes /verif/seeded/<seed-id>/{patch.diff, demo.py, meta.json}.
"""
import json
import os
import shutil
import subprocess
import sys
import time

VERIF = os.path.dirname(os.path.dirname(os.path.abspath(__file__)))


def sh(cmd, **kw):
    return subprocess.run(cmd, capture_output=True, text=True, **kw)


def main():
    sid, src, props = sys.argv[1], sys.argv[2], sys.argv[3:]
    scratch = f'/tmp/kyupy_seedchk_{os.getpid()}'
    shutil.rmtree(scratch, ignore_errors=True)
    shutil.copytree('/repo', scratch, ignore=shutil.ignore_patterns('.git', '__pycache__', '*.gz', '.pytest_cache'))
    for f in os.listdir('/repo/tests'):
        if f.endswith('.gz'): os.symlink(os.path.join('/repo/tests', f), os.path.join(scratch, 'tests', f))
    meta = {'id': sid, 'property': props[0], 'ran': []}
    try:
        demo = os.path.join(src, 'demo.py')
        env = dict(os.environ, PYTHONPATH=os.path.join(scratch, 'src'))
        shutil.copy(demo, os.path.join(scratch, 'demo.py'))
        r0 = sh(['/venv/bin/python', 'demo.py'], cwd=scratch, env=env)
        meta['demo_unchanged_rc'] = r0.returncode
        ra = sh(['patch', '-p1', '-i', os.path.join(src, 'patch.diff')], cwd=scratch)
        meta['patch_applied'] = ra.returncode == 0
        if ra.returncode != 0:
            print('PATCH FAILED', ra.stdout[-500:], ra.stderr[-500:])
        rt = sh(['/venv/bin/python', '-m', 'pytest', '-q', '-p', 'no:cacheprovider', '-n', '8', '--timeout=900', 'tests'], cwd=scratch, env=env)
        meta['tests_with_change'] = (rt.stdout.strip().splitlines() or ['?'])[-1]
        meta['tests_pass'] = rt.returncode == 0
        r1 = sh(['/venv/bin/python', 'demo.py'], cwd=scratch, env=env)
        meta['demo_changed_rc'] = r1.returncode
        meta['demo_changed_output'] = (r1.stdout + r1.stderr)[-600:]
        for prop in props:
            t0 = time.time()
            env2 = dict(os.environ, KYUPY_SRC=os.path.join(scratch, 'src'), VERIF_EVIDENCE_DIR=os.path.join(scratch, 'evidence'))
            rc = sh([os.path.join(VERIF, 'check'), prop, '--tier', 'quick'], cwd=VERIF, env=env2)
            nv = sum(1 for l in rc.stdout.splitlines() if l.startswith('VIOLATION'))
            first = next((l.strip() for l in rc.stdout.splitlines() if l.startswith('  C')), '')
            verdict = 'caught' if rc.returncode == 1 and nv else ('harness-error' if rc.returncode == 2 else 'missed')
            meta['ran'].append({'check': prop, 'tier': 'quick', 'verdict': verdict, 'rc': rc.returncode, 'violations_reported': nv,
                                'first_violation': first[:400], 'wall_s': round(time.time() - t0, 1)})
        out = os.path.join(VERIF, 'seeded', sid)
        os.makedirs(out, exist_ok=True)
        shutil.copy(os.path.join(src, 'patch.diff'), out)
        shutil.copy(demo, out)
        old = {}
        if os.path.exists(os.path.join(out, 'meta.json')):
            old = json.load(open(os.path.join(out, 'meta.json')))
        old.update(meta)
        json.dump(old, open(os.path.join(out, 'meta.json'), 'w'), indent=1)
        print(json.dumps(meta, indent=1))
    finally:
        shutil.rmtree(scratch, ignore_errors=True)


if __name__ == '__main__':
    main()
