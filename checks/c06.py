"""C06 - results do not depend on performance options, lane position or code path.

Differential enumeration over the configuration lattice of both simulators, against a baseline
configuration (CPU, no memory reuse, forks kept, exactly n lanes, all lanes propagated, single dataset).
"""
import itertools
import traceback

import numpy as np

from mc import common, families as F, lsim, ref, wsim
from mc.netlist import NL, STYLES, build
from mc.wsim import TMAX, TMIN
from checks import wave_common as W
from checks.c02 import lanes as code_lanes

PROP = 'C06'
LEVEL = 'exploration'
RULE = ('family circuits x all {0,1,R,F} stimuli x delay plans (zero delay on fork inputs) x capacities x configuration lattice: {c_reuse} x {strip_forks} x {WaveSim, WaveSimCuda under the '
        'repository\'s own mock launcher} x allocated lanes {n, n+1, n+7, 2n} x lane permutations (reversal, rotations, adjacent swap) x c_prop(sims=k) for k in 1..n (quick: 6 values) x '
        'delay dataset selection (mode 0 with every seed, mode 1 with per-lane datasets) x a_ctrl; state transfer s_ppo_to_ppi (CPU method vs GPU kernel) after a settled or a mid-activity capture (times 2.0, 1.25, 0.0), compared through the following cycle; bench-parsed netlists whose output ports are read inside the circuit: two cycles with s_ppo_to_ppi in between, WaveSim vs WaveSimCuda x {plain, c_reuse+strip_forks}; LogicSim: {c_reuse} x {strip_forks} x m in {2,4,8} on all stimuli, also on bench-parsed netlists whose output ports are read inside the circuit; '
        'oracle: bit-identical port results (and full signal memory where both runs keep it); distinct_nontrivial = distinct (case, configuration, result) signatures')
ASSUMPTIONS = ['strip_forks comparisons use zero delay on lines feeding forks and uniform capacities (the statement\'s parenthesis)',
               'delay selection mode 2 (pseudo-random per-op choice) is outside the statement and not compared',
               'GPU path = the kernels executed under kyupy\'s MockCuda launcher (numba absent)']


def tasks(tier, seed):
    t = W.w2_tasks(tier, seed)
    for sl in range(8): t.append(('logic', sl, 8, tier, seed))
    for sl in range(4): t.append(('cutwave', sl, 4, tier, seed))
    return t


def run_task(task):
    res = common.Result()
    tier, seed = task[-2], task[-1]
    if task[0] == 'cutwave':
        from checks.c07 import bench_cut_family
        for idx, text in enumerate(F.take_slice(bench_cut_family(), task[2], task[1])):
            if tier == 'quick' and idx % 8 != seed % 8: continue
            case = {'kind': 'cutwave', 'nl': text, 'caps': (16, 4)[idx % 2], 'T': (None, 2.0, 1.25, 0.0)[idx % 4]}
            try: cutwave_case(res, case)
            except Exception as ex:
                res.violation(f'C06/cutwave/{common.h64(case["nl"]):016x}/exception-{type(ex).__name__}', case, traceback.format_exc()[-1500:])
        if not res.samples: res.samples.append({'kind': 'cutwave'})
        return res
    if task[0] == 'logic':
        gens = itertools.chain(F.t5(), F.t4(), W.t2_wave())
        for idx, nl in enumerate(F.take_slice(gens, task[2], task[1])):
            if tier == 'quick' and idx % 9 != seed % 9: continue
            for m in (2, 4, 8):
                case = {'kind': 'logic', 'nl': nl.to_json(), 'style': (idx // 9 if tier == 'quick' else idx) % len(STYLES), 'm': m}
                try: logic_case(res, case)
                except Exception as ex:
                    res.violation(f'C06/logic/{common.h64(case["nl"]):016x}/exception-{type(ex).__name__}', case, traceback.format_exc()[-1500:])
        from checks.c07 import bench_cut_family
        for idx, text in enumerate(F.take_slice(bench_cut_family(), task[2], task[1])):
            if tier == 'quick' and idx % 6 != seed % 6: continue
            for m in (2, 4, 8):
                case = {'kind': 'logic', 'nl': text, 'bench': True, 'style': 0, 'm': m}
                try: logic_case(res, case)
                except Exception as ex:
                    res.violation(f'C06/logic/{common.h64(case["nl"]):016x}/exception-{type(ex).__name__}', case, traceback.format_exc()[-1500:])
        if not res.samples: res.samples.append({'kind': 'logic', 'm': 8})
        return res
    for idx, nl in enumerate(W.w2_circuits(task)):
        if tier == 'quick' and idx % 2 != seed % 2 and task[1] != 'wide': continue
        si = (idx // 2 if tier == 'quick' else idx) % len(STYLES)
        b = build(nl, STYLES[si])
        nlines = len(b.circuit.lines)
        base_plans = [['u'] * nlines, ['d'] * nlines, ['i' if i % 2 else 'o' for i in range(nlines)]]
        plans = base_plans if tier == 'thorough' else [base_plans[(idx + seed) % 3]]
        for plan in plans:
            plan = W.zero_fork_delays(b.circuit, plan)
            for caps in ((16, 4) if tier == 'thorough' else ((16, 4)[(idx // 3) % 2],)):
                case = {'kind': 'wave', 'nl': nl.to_json(), 'style': si, 'plan': plan, 'caps': caps, 'tier': tier, 'rot': idx + seed}
                try: wave_case(res, case)
                except Exception as ex:
                    res.violation(f'C06/wave/{common.h64(case["nl"]):016x}/exception-{type(ex).__name__}', case, traceback.format_exc()[-1500:])
        if len(res.samples) < 1: res.samples.append({'kind': 'wave', 'nl': nl.to_json(), 'style': si, 'plan': plans[0], 'caps': 4})
    return res


def replay(case):
    common.setup_kyupy()
    res = common.Result()
    try:
        if case['kind'] == 'logic': logic_case(res, case)
        elif case['kind'] == 'cutwave': cutwave_case(res, case)
        else: wave_case(res, case)
    except Exception as ex:
        res.violation(f'C06/{case["kind"]}/{common.h64(case["nl"]):016x}/exception-{type(ex).__name__}', case, traceback.format_exc()[-1500:])
    return res.violations


def logic_case(res, case):
    from kyupy.logic_sim import LogicSim
    m = case['m']
    if case.get('bench'):
        # bench text with output ports that are read inside the circuit: the port's assigned value feeds the readers, the port captures
        # the computed value; every port or state element with readers is a source.  No reference needed: configurations are compared.
        from kyupy import bench
        nl = case['nl']
        c = bench.parse(nl)
        ipos = [i for i, x in enumerate(c.s_nodes) if len(x.outs) > 0]
        opos, spos = [i for i, x in enumerate(c.s_nodes) if len(x.ins) > 0], []
        nv = len(ipos)
        res.count('logic_bench_cut_ports')
    else:
        nl = NL.from_json(case['nl'])
        b = build(nl, STYLES[case['style']])
        c = b.circuit
        ipos, opos, spos = b.s_pos()
        nv = nl.n_in + len(nl.states)
    vals = code_lanes(nv, m)
    if m == 2: vals = [v * 3 for v in vals]
    n = m ** nv
    outs = {}
    for reuse, strip in itertools.product((False, True), repeat=2):
        res.evals += 1
        key = f'C06/logic/{common.h64(case["nl"]):016x}/s{case["style"]}/m{m}/{int(reuse)}{int(strip)}'
        try:
            sim = LogicSim(c, sims=n, m=m, c_reuse=reuse, strip_forks=strip)
            for k, pos in enumerate(ipos + spos): lsim.assign_codes(sim, pos, vals[k])
            sim.s_to_c(); sim.c_prop()
            if reuse: sim.c_prop()        # the assigned inputs survive a propagation: propagating twice changes nothing
            sim.c_to_s()
            outs[(reuse, strip)] = np.array(sim.s[1][[*opos, *spos]], copy=True) if (opos + spos) else np.zeros(0)
        except Exception as ex:
            res.violation(key + f'/exception-{type(ex).__name__}', case, f'LogicSim(c_reuse={reuse}, strip_forks={strip}) raised: ' + traceback.format_exc()[-900:])
            continue
        if (False, False) in outs and not np.array_equal(outs[(reuse, strip)][:, :sim.mdim], outs[(False, False)][:, :sim.mdim]):
            res.violation(key + '/differs', case, f'LogicSim m={m} results with c_reuse={reuse} strip_forks={strip} differ from the plain configuration {nl}')
        res.sig(('logic', case['nl'], m, reuse, strip))
    # two simulator objects alive at the same time, used in an interleaved fashion: no state is shared between objects
    try:
        a = LogicSim(c, sims=n, m=m)
        bsim = LogicSim(c, sims=n, m=m, c_reuse=True)
        for k, pos in enumerate(ipos + spos):
            lsim.assign_codes(a, pos, vals[k]); lsim.assign_codes(bsim, pos, vals[(k + 1) % len(vals)][::-1].copy() if len(vals) else vals[k])
        a.s_to_c(); bsim.s_to_c(); a.c_prop(); bsim.c_prop(); bsim.c_to_s(); a.c_to_s()
        got = np.array(a.s[1][[*opos, *spos]], copy=True) if (opos + spos) else np.zeros(0)
        if (False, False) in outs and not np.array_equal(got[:, :a.mdim], outs[(False, False)][:, :a.mdim]):
            res.violation(f'C06/logic/{common.h64(case["nl"]):016x}/s{case["style"]}/m{m}/two-objects', case, f'LogicSim m={m}: results change when a second simulator object is used in between {nl}')
        res.count('logic_two_objects')
    except Exception as ex:
        res.violation(f'C06/logic/{common.h64(case["nl"]):016x}/s{case["style"]}/m{m}/two-objects-exception', case, traceback.format_exc()[-900:])
    res.count('logic_cases')


def cutwave_case(res, case):
    """bench netlists whose output ports are read inside the circuit, two clock cycles with the simulators' own state transfer in
    between: WaveSim vs WaveSimCuda, and plain vs {c_reuse, strip_forks}.  No reference: the configurations are compared."""
    from kyupy import bench
    c = bench.parse(case['nl'])
    src = [i for i, x in enumerate(c.s_nodes) if len(x.outs) > 0]
    obs = [i for i, x in enumerate(c.s_nodes) if len(x.ins) > 0]
    n, init, tt, fin = W.stim_for(len(src))
    nlines = len(c.lines)
    delays = wsim.delay_array(nlines, W.zero_fork_delays(c, ['d' if i % 2 else 'u' for i in range(nlines)]))
    key = f'C06/cutwave/{common.h64(case["nl"]):016x}/cap{case["caps"]}/T{case["T"]}'
    runs = {}
    for cuda, reuse, strip in ((False, False, False), (True, False, False), (False, True, True), (True, True, True)):
        res.evals += 1
        sim = W.make_sim(c, delays, n, caps=case['caps'], reuse=reuse, strip=strip, cuda=cuda)
        W.assign(sim, src, init, tt, fin)
        sim.s_to_c(); sim.c_prop()
        if case['T'] is None: sim.c_to_s()
        else: sim.c_to_s(time=case['T'])
        first = np.array(np.asarray(sim.s)[:, obs][:, :, :n], copy=True)
        sim.s_ppo_to_ppi()
        stim = np.array(np.asarray(sim.s)[0:3][:, :, :n], copy=True)
        sim.s_to_c(); sim.c_prop(); sim.c_to_s()
        second = np.array(np.asarray(sim.s)[:, obs][:, :, :n], copy=True)
        runs[(cuda, reuse, strip)] = (first[3:], stim, second[3:])
    ref_run = runs[(False, False, False)]
    for cfg, r in runs.items():
        if cfg == (False, False, False): continue
        for nm, a, b_ in zip(('first-cycle', 'transferred-stimulus', 'second-cycle'), ref_run, r):
            if not np.array_equal(a, b_):
                res.violation(f'{key}/g{int(cfg[0])}r{int(cfg[1])}f{int(cfg[2])}/{nm}', case, f'{nm}: WaveSim{"Cuda" if cfg[0] else ""}(c_reuse={cfg[1]}, strip_forks={cfg[2]}) differs from the plain CPU simulator {case["nl"]}')
                break
    res.sig(('cutwave', case['nl'], case['caps'], case['T'], ref_run[2].tobytes()))
    res.count('cutwave_cases')


def wave_case(res, case):
    nl = NL.from_json(case['nl'])
    b = build(nl, STYLES[case['style']])
    c = b.circuit
    ipos, opos, spos = b.s_pos()
    nv = nl.n_in + len(nl.states)
    n, init, tt, fin = W.stim_for(nv)
    nlines = len(c.lines)
    delays = wsim.delay_array(nlines, case['plan'])
    caps = case['caps']
    tier, rot = case.get('tier', 'quick'), case.get('rot', 0)
    obs = opos + spos
    key0 = f'C06/wave/{common.h64(case["nl"]):016x}/s{case["style"]}/{"".join(case["plan"])}/cap{caps}'
    actrl = np.zeros((nlines + 3, 3), dtype=np.int32); actrl[:, 0] = -1
    for l in range(nlines): actrl[l] = (l % 2, 1 + l % 3, 2 if l % 2 else -3)      # positive and negative weights

    def run(reuse=False, strip=False, cuda=False, alloc=None, perm=None, k=None, dl=delays, mode=None, seed=1, a_ctrl=None, datasets=None, late_ctl=False):
        alloc = alloc or n
        sim = W.make_sim(c, dl, alloc, caps=caps, reuse=reuse, strip=strip, cuda=cuda, a_ctrl=a_ctrl)
        if mode is not None:
            if np.ndim(mode): sim.simctl_int[1, :n] = mode
            else: sim.simctl_int[1] = mode
            if datasets is not None: sim.simctl_int[0, :n] = 0 if late_ctl else datasets
        else:
            seed = 0
        p = np.arange(n) if perm is None else np.asarray(perm)
        for kk, pos in enumerate(ipos + spos):
            sim.s[0, pos, :n] = init[kk][p]; sim.s[1, pos, :n] = tt[kk][p]; sim.s[2, pos, :n] = fin[kk][p]
        sim.s_to_c()
        if late_ctl and datasets is not None: sim.simctl_int[0, :n] = datasets      # the selection is made after the stimuli were applied
        before = np.array(sim.c, copy=True)
        if k is None: sim.c_prop(seed=seed)
        else: sim.c_prop(sims=k, seed=seed)
        sim.c_to_s()
        return sim, before

    def ports(sim, lanes=None):
        sl = slice(0, n) if lanes is None else lanes
        s = np.asarray(sim.s)
        return np.concatenate([s[3:8][:, obs][:, :, sl], s[10:11][:, obs][:, :, sl]]) if obs else np.zeros(0)

    base, _ = run()
    pb = ports(base)
    cb = np.array(base.c, copy=True)
    res.sig(('wave', case['nl'], case['style'], tuple(case['plan']), caps, pb.tobytes()))
    strip_ok = not W.has_port_forks(c)
    uniform_caps = isinstance(caps, int)

    def compare(name, sim, full_c=False, lanes_alloc=None):
        res.evals += 1
        if not np.array_equal(ports(sim), pb):
            d = np.argwhere(ports(sim) != pb)[0].tolist()
            res.violation(f'{key0}/{name}/ports', case, f'{name}: port results differ from the baseline at (row, output, lane) {d}: {ports(sim)[tuple(d)]} vs {pb[tuple(d)]} {nl}')
        if full_c and not np.array_equal(np.asarray(sim.c)[:, :n], cb):
            res.violation(f'{key0}/{name}/memory', case, f'{name}: signal memory differs from the baseline {nl}')
        res.count('cfg_' + name.split('-')[0])

    # option lattice
    for reuse, strip, cuda in itertools.product((False, True), repeat=3):
        if (reuse, strip, cuda) == (False, False, False): continue
        name = f'opt-r{int(reuse)}f{int(strip)}g{int(cuda)}'
        try:
            sim, _ = run(reuse=reuse, strip=strip, cuda=cuda)
        except Exception as ex:
            what = 'portfork' if (strip and not strip_ok) else 'plain'
            res.violation(f'{key0}/{name}/exception-{type(ex).__name__}-{what}', case, f'{name} raised: ' + traceback.format_exc()[-900:])
            continue
        compare(name, sim, full_c=(not reuse and not strip))
    # allocated lanes
    for alloc in (n + 1, n + 7, 2 * n):
        for cuda in (False, True):
            if tier == 'quick' and (alloc + cuda + rot) % 3: continue
            sim, _ = run(alloc=alloc, cuda=cuda)
            compare(f'alloc-{alloc - n}g{int(cuda)}', sim, full_c=True)
    # lane permutations
    perms = {'rev': np.arange(n)[::-1], 'rot1': np.roll(np.arange(n), 1), 'rot7': np.roll(np.arange(n), 7), 'swap': np.arange(n) ^ 1 if n % 2 == 0 else np.roll(np.arange(n), 3)}
    for pname, p in perms.items():
        if tier == 'quick' and (len(pname) + rot) % 2: continue
        sim, _ = run(perm=p, cuda=bool((rot + len(pname)) % 2))
        res.evals += 1
        got = ports(sim)
        exp = pb[:, :, p] if obs else pb
        if not np.array_equal(got, exp):
            res.violation(f'{key0}/perm-{pname}/ports', case, f'lane permutation {pname}: results do not follow their stimuli {nl}')
        res.count('cfg_perm')
    # propagate only the first k lanes
    ks = range(1, n + 1) if tier == 'thorough' and n <= 40 else sorted(k for k in {1, 2, 7, 8, n // 2, n - 1, (rot * 5) % n + 1} if 1 <= k <= n)      # the rule says k in 1..n (k = 0 is not a restriction to a prefix)
    for k in ks:
        for cuda in (False, True):
            if tier == 'quick' and (k + cuda + rot) % 2: continue
            sim, before = run(k=k, cuda=cuda)
            res.evals += 1
            cc = np.asarray(sim.c)
            if not np.array_equal(cc[:, :k], cb[:, :k]):
                res.violation(f'{key0}/sims-{k}g{int(cuda)}/first', case, f'c_prop(sims={k}): memory of the first {k} lanes differs from the full run {nl}')
            if not np.array_equal(cc[:, k:n], before[:, k:n]):
                res.violation(f'{key0}/sims-{k}g{int(cuda)}/rest', case, f'c_prop(sims={k}): lanes >= {k} were modified {nl}')
            res.count('cfg_sims')
    # a simulator object that already propagated another stimulus gives the same results as a fresh one
    for cuda in (False, True):
        sim = W.make_sim(c, delays, n, caps=caps, cuda=cuda)
        p0 = np.roll(np.arange(n), 3)
        for perm in (p0, np.arange(n)):
            for kk, pos in enumerate(ipos + spos):
                sim.s[0, pos, :n] = init[kk][perm]; sim.s[1, pos, :n] = tt[kk][perm]; sim.s[2, pos, :n] = fin[kk][perm]
            sim.s_to_c(); sim.c_prop(seed=0); sim.c_to_s()
        compare(f'reuse-g{int(cuda)}', sim)   # memory behind the terminators may hold stale entries of the earlier run: ports only
    # two simulator objects alive at the same time (CPU and GPU path, other stimulus, memory reuse), used interleaved
    for cuda in (False, True):
        a = W.make_sim(c, delays, n, caps=caps, cuda=cuda)
        o = W.make_sim(c, delays * 2, n, caps=caps, cuda=not cuda, reuse=True)
        for kk, pos in enumerate(ipos + spos):
            a.s[0, pos, :n] = init[kk]; a.s[1, pos, :n] = tt[kk]; a.s[2, pos, :n] = fin[kk]
            o.s[0, pos, :n] = fin[kk][::-1]; o.s[1, pos, :n] = tt[kk] + 0.5; o.s[2, pos, :n] = init[kk][::-1]
        a.s_to_c(); o.s_to_c(); a.c_prop(seed=0); o.c_prop(seed=0); o.c_to_s(); a.c_to_s()
        compare(f'twoobjects-g{int(cuda)}', a, full_c=True)
    # the input waveforms stay valid after a propagation: a second c_prop() without a new s_to_c() gives the same results (also with memory reuse)
    for reuse, cuda in ((True, False), (True, True), (False, False)):
        sim = W.make_sim(c, delays, n, caps=caps, cuda=cuda, reuse=reuse)
        for kk, pos in enumerate(ipos + spos):
            sim.s[0, pos, :n] = init[kk]; sim.s[1, pos, :n] = tt[kk]; sim.s[2, pos, :n] = fin[kk]
        sim.s_to_c(); sim.c_prop(seed=0); sim.c_prop(seed=0); sim.c_to_s()
        compare(f'twoprop-r{int(reuse)}g{int(cuda)}', sim)
    # a restricted propagation followed by a full one on the same object
    for cuda in (False, True):
        sim = W.make_sim(c, delays, n, caps=caps, cuda=cuda)
        for kk, pos in enumerate(ipos + spos):
            sim.s[0, pos, :n] = init[kk]; sim.s[1, pos, :n] = tt[kk]; sim.s[2, pos, :n] = fin[kk]
        sim.s_to_c(); sim.c_prop(sims=min(8, n), seed=0); sim.c_prop(seed=0); sim.c_to_s()
        compare(f'narrowwide-g{int(cuda)}', sim)
    # state transfer after capture: CPU method vs GPU kernel; compared through the results of the following cycle
    # (the transferred stimulus of a state element without connected outputs is not observable and not compared)
    if spos:
        rs, nxt = [], []
        live = [k for k, p in enumerate(spos) if len(c.s_nodes[p].outs) > 0]
        Tcap = (None, 2.0, 1.25, 0.0)[common.h64((case['nl'], 'Tcap')) % 4]    # settled capture, or a capture in the middle of the activity: the captured value differs from the final one
        base_t = base
        if Tcap is not None:
            base_t, _ = run(); base_t.c_to_s(time=Tcap)
            res.count('cfg_state_transfer_midcapture')
        for cuda in (False, True):
            sim, _ = run(cuda=cuda)
            if Tcap is not None: sim.c_to_s(time=Tcap)
            sim.s_ppo_to_ppi(time=2.5)
            rs.append(np.asarray(sim.s)[0:3][:, [spos[k] for k in live]][:, :, :n].copy())
            sim.s_to_c(); sim.c_prop(seed=0); sim.c_to_s()
            nxt.append(ports(sim))
        res.evals += 1
        lp = [spos[k] for k in live]
        exp0 = np.asarray(base_t.s)[2][lp][:, :n]; exp2 = np.asarray(base_t.s)[8][lp][:, :n]
        for nm, r in zip(('cpu', 'gpu'), rs):
            if not (np.array_equal(r[0], exp0) and np.all(r[1] == 2.5) and np.array_equal(r[2], exp2)):
                res.violation(f'{key0}/ppo-to-ppi-{nm}', case, f's_ppo_to_ppi ({nm} path): state elements do not receive (previous final value, time, captured value) {nl}')
        if not np.array_equal(nxt[0], nxt[1]):
            res.violation(f'{key0}/second-cycle', case, f'results of the cycle after s_ppo_to_ppi differ between CPU and GPU path {nl}')
        res.count('cfg_state_transfer')
    # delays that are not exactly representable in single precision (typical SDF decimals), given in double precision: both code
    # paths must do the same arithmetic on them (no reference needed: CPU and GPU path are compared bit by bit)
    dec = np.array(delays, dtype=np.float64, copy=True)
    for li in range(dec.shape[1]):
        dec[:, li] = np.where(dec[:, li] > 0, dec[:, li] * 0.13 + 0.0071 * (li + 1), 0.0)
    sc, _ = run(dl=dec)
    sg, _ = run(dl=dec, cuda=True)
    res.evals += 1
    if not np.array_equal(ports(sc).view(np.uint32) if ports(sc).dtype == np.float32 else ports(sc), ports(sg).view(np.uint32) if ports(sg).dtype == np.float32 else ports(sg)):
        d = np.argwhere(ports(sc) != ports(sg))[0].tolist()
        res.violation(f'{key0}/decimal-delays-cpu-gpu', case, f'double-precision decimal delays: CPU and GPU path differ at (row, output, lane) {d}: {ports(sc)[tuple(d)]!r} vs {ports(sg)[tuple(d)]!r} {nl}')
    res.count('cfg_decimal_delays')
    # delay datasets
    d3 = np.concatenate([delays, delays * 2, wsim.delay_array(nlines, W.zero_fork_delays(c, ['e' if x == 'u' else 'u' for x in case['plan']]))])
    singles = []
    for ds in range(3):
        s1, _ = run(dl=d3[ds:ds + 1])
        singles.append(ports(s1))
    for ds in range(3):
        for cuda in (False, True):
            if tier == 'quick' and (ds + cuda + rot) % 2: continue
            sim, _ = run(dl=d3, mode=0, seed=ds, cuda=cuda)
            res.evals += 1
            if not np.array_equal(ports(sim), singles[ds]):
                res.violation(f'{key0}/dataset-mode0-{ds}g{int(cuda)}', case, f'global dataset {ds} (mode 0) differs from simulating with that dataset alone {nl}')
            res.count('cfg_dataset')
    for variant in range(2 if tier == 'quick' else 4):
        sel = (np.arange(n) * (variant + 1) + variant + rot) % 3
        cuda = bool(variant % 2)
        sim, _ = run(dl=d3, mode=1, datasets=sel.astype(np.int32), seed=variant + 1, cuda=cuda, late_ctl=True)
        res.evals += 1
        got = ports(sim)
        if obs:
            exp = np.stack([singles[int(sel[l])][:, :, l] for l in range(n)], axis=-1)
            if not np.array_equal(got, exp):
                l = int(np.argwhere(got != exp)[0][-1])
                res.violation(f'{key0}/dataset-mode1-v{variant}g{int(cuda)}', case, f'per-lane dataset selection: lane {l} (dataset {sel[l]}) differs from simulating with that dataset alone {nl}')
        res.count('cfg_dataset')
    # the selection method itself is a per-lane setting: lanes that take the global dataset (method 0, by seed) beside lanes with their own
    for variant in range(2 if tier == 'quick' else 6):
        modes = ((np.arange(n) // (1 + variant // 2) + variant) % 2).astype(np.int32)
        sel = ((np.arange(n) * (variant + 2) + rot) % 3).astype(np.int32)
        gseed = (variant + rot) % 3
        cuda = bool(variant % 2)
        sim, _ = run(dl=d3, mode=modes, datasets=sel, seed=gseed, cuda=cuda)
        res.evals += 1
        got = ports(sim)
        if obs:
            eff = np.where(modes == 0, gseed, sel)
            exp = np.stack([singles[int(eff[l])][:, :, l] for l in range(n)], axis=-1)
            if not np.array_equal(got, exp):
                l = int(np.argwhere(got != exp)[0][-1])
                res.violation(f'{key0}/dataset-mixed-v{variant}g{int(cuda)}', case, f'mixed selection methods: lane {l} (method {modes[l]}, own dataset {sel[l]}, global {gseed}) differs from simulating with dataset {eff[l]} alone {nl}')
        res.count('cfg_dataset_mixed')
    # accumulation buffer across code paths / reuse / lanes
    ab, _ = run(a_ctrl=actrl)
    ab0 = np.asarray(ab.abuf).copy()
    for reuse, cuda, alloc in ((True, False, n), (False, True, n), (True, True, n + 3)):
        if tier == 'quick' and (reuse + 2 * cuda + rot) % 2: continue
        name = f'abuf-r{int(reuse)}g{int(cuda)}a{alloc - n}'
        try:
            sim, _ = run(reuse=reuse, cuda=cuda, alloc=alloc, a_ctrl=actrl)
        except Exception as ex:
            res.violation(f'{key0}/{name}/exception-{type(ex).__name__}', case, f'{name} raised: ' + traceback.format_exc()[-900:])
            continue
        res.evals += 1
        if not np.array_equal(np.asarray(sim.abuf)[:, :n], ab0):
            res.violation(f'{key0}/{name}/abuf', case, f'{name}: accumulated switching activity differs from the baseline {nl}')
        compare(name, sim)
        res.count('cfg_abuf')


def finish(agg, tier):
    need = ['cfg_opt', 'cfg_alloc', 'cfg_perm', 'cfg_sims', 'cfg_dataset', 'cfg_dataset_mixed', 'cfg_twoobjects', 'cfg_twoprop', 'cfg_decimal_delays', 'logic_two_objects', 'cfg_abuf', 'cfg_reuse', 'logic_cases', 'logic_bench_cut_ports', 'cfg_state_transfer_midcapture', 'cutwave_cases']
    missing = [k for k in need if not agg.counters.get(k)]
    if missing: raise common.HarnessError(f'vacuity guard: {missing} zero')
    return {}
