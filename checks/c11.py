"""C11 - parsed Verilog and bench netlists simulate as the described netlist.

E1: netlist ASTs x libraries x textual renderings (deviation-bounded rendering options) x branchforks;
oracle: port order, truth table of the parsed+resolved circuit (reference graph evaluator) == AST truth
table, branchforks only adds 1:1 forks, Verilog and bench renderings agree.
"""
import itertools
import traceback

from mc import common, families as F, lsim, ref, render
from mc.netlist import NL
from checks.c10 import tt

PROP = 'C11'
LEVEL = 'exploration'
RULE = ('ASTs (T1 single gates of every library-mapped primitive incl. open pins, T2 slice, T3 small with flip-flops, T4/T5 shapes, constants) x 5 libraries x rendering options '
        '(declaration style scalar/descending/ascending/mixed buses, port order, statement order, pin order, output via assign, escaped identifiers, comments/attributes/whitespace/CRLF, '
        'wire re-declaration, constants on pins or via sized-constant bus (used bit = first or later 1/0 bit) or via several scalar constant assigns, open pins omitted or empty, assign order, alias chains, concatenation assign of bits / with whole vectors on either side): default + every single deviation '
        '(+ all pairs in thorough) x branchforks; every parsed and resolved circuit is evaluated by the reference graph evaluator AND simulated by LogicSim (m=2, all patterns); bench renderings of primitive-only ASTs with their own options; distinct_nontrivial = distinct (AST, library, options) texts with non-constant function')
ASSUMPTIONS = ['library pin tables are trusted here (checked by C19); primitive kind -> cell mapping is derived from the implementation circuits',
               'truth tables by the reference graph evaluator after resolve_tlib_cells (tied to substitute by C10)',
               'supported subset: flat module, scalar/bus declarations, pins connected to scalar nets, bit selects or 1-bit constants']
LIBS = ['SAED90', 'SAED32', 'NANGATE', 'NANGATE_ZN', 'GSC180']


def nl_family(tier, seed):
    """ASTs for the parser checks (3 inputs)."""
    out = []
    for kind in ref.PRIMITIVES_33:
        a = F.ARITY[kind]
        out.append(NL(3, [], [(kind, tuple(f'i{j % 3}' for j in range(a)))], ['g0']))
        if a >= 2:
            out.append(NL(3, [], [(kind, tuple([None] + [f'i{j % 3}' for j in range(1, a)]))], ['g0']))
            # one constant per netlist, so that it is never masked by the controlling value of the other one
            out.append(NL(3, [], [(kind, tuple(['c1'] + [f'i{j % 3}' for j in range(1, a)]))], ['g0']))
            out.append(NL(3, [], [(kind, tuple([f'i{j % 3}' for j in range(a - 1)] + ['c0']))], ['g0']))
    # two-gate, fan-out, several outputs, output tapping an input, same signal on two outputs
    out.append(NL(3, [], [('NAND2', ('i0', 'i1')), ('XOR2', ('g0', 'i2')), ('INV1', ('g0',))], ['g1', 'g2', 'g0']))
    out.append(NL(3, [], [('AO21', ('i0', 'i1', 'i2')), ('MUX21', ('g0', 'i0', 'i1'))], ['g1', 'i2']))
    out.append(NL(2, [], [('NOR2', ('i0', 'i1'))], ['g0', 'g0']))
    out.append(NL(3, [], [('AND3', ('i0', 'i1', 'i2')), ('OR2', ('g0', 'i0')), ('XNOR2', ('g1', 'g0')), ('BUF1', ('g2',))], ['g3', 'g1']))
    # sequential
    out.append(NL(2, [('dff', 'g0')], [('XOR2', ('i0', 'q0')), ('NAND2', ('n0', 'i1'))], ['g1']))
    out.append(NL(1, [('dff', 'i0'), ('dff', 'q0')], [('OR2', ('q1', 'n0'))], ['g0', 'q1']))
    out.append(NL(2, [('dff', 'n0')], [('AND2', ('q0', 'i0'))], ['g0', 'n0']))
    # dangling gate next to live logic
    out.append(NL(2, [], [('AND2', ('i0', 'i1')), ('OR2', ('i0', 'i1'))], ['g1']))
    for i, nl in enumerate(F.t2()):
        if i % 97 == seed % 97 or (tier == 'thorough' and i % 23 == 0):
            if nl.n_in <= 4 and len(nl.outs) == 1: out.append(nl)
    return out


def tasks(tier, seed):
    t = []
    if tier == 'quick':
        for lib in LIBS:
            for sl in range(6): t.append(('v', lib, sl, 6, tier, seed))
        for sl in range(4): t.append(('b', sl, 4, tier, seed))
    else:
        # all option pairs on several hundred netlists per library: many small interleaved slices, slice-major order, so that a run
        # ending at its budget has covered the same fraction of every library
        nsl = 240
        for sl in range(4): t.append(('b', sl, 4, tier, seed))
        for sl in range(nsl):
            for lib in LIBS: t.append(('v', lib, sl, nsl, tier, seed))
    return t


def run_task(task):
    res = common.Result()
    tier, seed = task[-2], task[-1]
    if task[0] == 'v':
        import kyupy.techlib as tl
        lib = getattr(tl, task[1])
        cmap = render.cell_map(lib)
        dff = render.DFF_CELLS[task[1]]
        res.count('mapped_kinds_' + task[1], len(cmap))
        nls = [nl for nl in nl_family(tier, seed) if all(k.upper() in cmap for k, _ in nl.gates)]
        for idx, nl in enumerate(nls):
            if idx % task[3] != task[2]: continue
            optlist = list(render.VOpts.enumerate(2 if tier == 'thorough' else 1))
            if tier == 'quick' and idx % 3: optlist = optlist[:1] + optlist[1 + (idx + seed) % 4::4]
            for o in optlist:
                for bf in (False, True):
                    case = {'kind': 'v', 'lib': task[1], 'nl': nl.to_json(), 'opts': o.dev(), 'bf': bf}
                    v_case(res, case, lib, cmap, dff)
    else:
        nls = [nl for nl in nl_family(tier, seed) if render.bench_ok(nl)] + [nl for i, nl in enumerate(F.t4()) if render.bench_ok(nl) and i % 5 == seed % 5]
        for idx, nl in enumerate(nls):
            if idx % task[2] != task[1]: continue
            for o in render.BOpts.enumerate(2 if tier == 'thorough' else 1):
                b_case(res, {'kind': 'b', 'nl': nl.to_json(), 'opts': o.dev()})
    return res


def replay(case):
    common.setup_kyupy()
    res = common.Result()
    if case['kind'] == 'v':
        import kyupy.techlib as tl
        lib = getattr(tl, case['lib'])
        v_case(res, case, lib, render.cell_map(lib), render.DFF_CELLS[case['lib']])
    else: b_case(res, case)
    return res.violations


def expected_tt(nl, names, state_names):
    """AST truth tables in the variable order given by names ('i:<port>' / 's:<state>')."""
    nv = len(names)
    npat = 1 << nv
    mask = (1 << npat) - 1
    col = {nm: sum(1 << p for p in range(npat) if (p >> k) & 1) for k, nm in enumerate(names)}
    return nv, mask, col


def structure(c):
    """names, kinds and wiring of a circuit in its own order (constants get running numbers: named by position)"""
    return ([(n.name, n.kind, [None if l is None else (l.driver.name, l.driver_pin) for l in n.ins],
              [None if l is None else (l.reader.name, l.reader_pin) for l in n.outs]) for n in c.nodes],
            [None if n is None else n.name for n in c.io_nodes])


def v_case(res, case, lib, cmap, dff):
    from kyupy import verilog
    nl = NL.from_json(case['nl'])
    opts = render.VOpts(**case['opts'])
    res.evals += 1
    devs = ','.join(f'{k}={v}' for k, v in sorted(case['opts'].items())) or 'default'
    key = f'C11/v/{case["lib"]}/{common.h64(case["nl"]):016x}/{devs}/{"bf" if case["bf"] else "plain"}'
    try:
        text, ports, inst, in_names, out_names_r = render.verilog(nl, cmap, dff, opts)
        case['text'] = text
        c = verilog.parse(text, tlib=lib, branchforks=case['bf'])
        if isinstance(c, list):      # several modules in one file: one circuit per module, in file order; the netlist under test is the last one
            if [x.name for x in c] != ['decoy', 'top']:
                res.violation(key + '/modules', case, f'parse returned circuits {[x.name for x in c]} for the modules decoy, top\n{text}'); return
            c = c[-1]
            res.count('v_multi_module')
        if common.h64(text) % 3 == 0 and not opts.multi_module:
            # the result of parsing is a function of the text alone: a second parse (after all the parses this worker did before)
            # gives the same circuit, and the first one is not touched by it
            d1 = structure(c)
            c_again = verilog.parse(text, tlib=lib, branchforks=case['bf'])
            if structure(c_again) != d1 or structure(c) != d1:
                res.violation(key + '/reparse', case, f'parsing the same text twice gives different circuits\n{text}')
            res.count('v_reparsed')
        got_ports = [n.name for n in c.io_nodes]
        if got_ports != ports:
            res.violation(key + '/ports', case, f'io_nodes {got_ports} expected {ports}\n{text}')
            return
        n_pins = sum(1 for n in c.nodes if n.kind in lib.cells for l in n.ins if l is not None)
        n_bf = sum(1 for n in c.forks.values() if '~' in n.name)
        if case['bf']:
            if n_bf != n_pins: res.violation(key + '/branchforks-count', case, f'{n_bf} branch forks for {n_pins} connected cell input pins')
            for n in c.forks.values():
                if '~' in n.name and not (len(n.ins) == 1 and len(n.outs) == 1 and n.outs[0].reader.kind != '__fork__'):
                    res.violation(key + '/branchforks-shape', case, f'branch fork {n} is not a 1:1 fork in front of a cell pin')
        elif n_bf: res.violation(key + '/branchforks-off', case, 'branch forks present although not requested')
        c.resolve_tlib_cells(lib)
        out_names = [p for p in ports if p.startswith('o')]
        names, obs = tt(c, out_names=out_names)
        # variable order of the parsed circuit -> AST variables
        nv = len(names); npat = 1 << nv; mask = (1 << npat) - 1
        col = {nm: sum(1 << p for p in range(npat) if (p >> k) & 1) for k, nm in enumerate(names)}
        def pname(k): return 'i:' + in_names[k]
        exp_names = {pname(k) for k in range(nl.n_in)} | ({'i:clk'} if nl.states else set()) | {f's:{inst[k]}' for k in inst}
        if set(names) != exp_names:
            res.violation(key + '/variables', case, f'inputs/state elements {sorted(names)} expected {sorted(exp_names)}\n{text}'); return
        v = nl.eval2([col[pname(k)] for k in range(nl.n_in)], [col[f's:{inst[k]}'] for k in range(len(nl.states))], mask)
        exp = {}
        for j, s in enumerate(nl.outs):
            exp['o:' + out_names_r[j]] = v[s]
        for k, (_, d) in enumerate(nl.states): exp[f'd:{inst[k]}'] = v[d]
        if obs != exp:
            bad = sorted(k for k in set(obs) | set(exp) if obs.get(k) != exp.get(k))
            res.violation(key + '/function', case, f'{bad}: got {[obs.get(k) for k in bad]} expected {[exp.get(k) for k in bad]} {nl}\n{text}')
        else:
            # "simulate as the described netlist": the library's own 2-valued simulator on the parsed and resolved circuit, all patterns
            # at once (the graph evaluation above gives every output pin of a cell a value; the simulators schedule cells their own way)
            from kyupy.logic_sim import LogicSim
            pos = {n.name: i for i, n in enumerate(c.s_nodes)}
            sim = LogicSim(c, sims=npat, m=2)
            for nm in names: lsim.assign2(sim, pos[nm[2:]], col[nm], npat)
            sim.s_to_c(); sim.c_prop(); sim.c_to_s()
            got = {k: lsim.read2(sim, 1, pos[k[2:]], npat) for k in exp}
            if got != exp:
                bad = sorted(k for k in exp if got[k] != exp[k])
                res.violation(key + '/simulated', case, f'LogicSim on the parsed circuit: {bad}: got {[got[k] for k in bad]} expected {[exp[k] for k in bad]} {nl}\n{text}')
            res.count('v_simulated')
        if any(x not in (0, mask) for x in exp.values()): res.sig(('v', case['lib'], case['nl'], devs, case['bf']))
        if len(res.samples) < 1 and len(case['opts']) >= 1: res.samples.append({'lib': case['lib'], 'opts': case['opts'], 'text': text})
        res.count('v_cases')
        if case['bf']: res.count('v_branchforks')
    except Exception as ex:
        res.violation(key + f'/exception-{type(ex).__name__}', case, traceback.format_exc()[-1200:] + '\n' + case.get('text', ''))


def b_case(res, case):
    from kyupy import bench, verilog
    import kyupy.techlib as tl
    nl = NL.from_json(case['nl'])
    opts = render.BOpts(**case['opts'])
    res.evals += 1
    devs = ','.join(f'{k}={v}' for k, v in sorted(case['opts'].items())) or 'default'
    key = f'C11/b/{common.h64(case["nl"]):016x}/{devs}'
    try:
        text, io, states = render.bench(nl, opts)
        case['text'] = text
        c = bench.parse(text)
        got = [n.name for n in c.io_nodes]
        if got != io:
            res.violation(key + '/ports', case, f'io_nodes {got} expected {io}\n{text}'); return
        outs = [n for n in io if not n.startswith('i')]
        names, obs = tt(c, out_names=outs)
        nv = len(names); npat = 1 << nv; mask = (1 << npat) - 1
        col = {nm: sum(1 << p for p in range(npat) if (p >> k) & 1) for k, nm in enumerate(names)}
        exp_names = {f'i:i{k}' for k in range(nl.n_in)} | {f's:{states[k]}' for k in states}
        if set(names) != exp_names:
            res.violation(key + '/variables', case, f'inputs/state elements {sorted(names)} expected {sorted(exp_names)}\n{text}'); return
        v = nl.eval2([col[f'i:i{k}'] for k in range(nl.n_in)], [col[f's:{states[k]}'] for k in range(len(nl.states))], mask)
        name = {f'g{k}': f'g{k}' for k in range(len(nl.gates))}
        for k in range(len(nl.states)): name[f'q{k}'] = f'q{k}'; name[f'n{k}'] = f'qn{k}'
        exp = {'o:' + name[s]: v[s] for s in nl.outs}
        for k, (_, d) in enumerate(nl.states): exp[f'd:q{k}'] = v[d]
        # a state element that is also an output port: the port fork q<k> reads the flip-flop
        if obs != exp:
            bad = sorted(k for k in set(obs) | set(exp) if obs.get(k) != exp.get(k))
            res.violation(key + '/function', case, f'{bad}: got {[obs.get(k) for k in bad]} expected {[exp.get(k) for k in bad]} {nl}\n{text}')
        res.count('b_cases')
        # cross-format: the same AST through Verilog (SAED90 cells) must give the same tables
        lib = tl.SAED90
        cmap = render.cell_map(lib)
        if all(k.upper() in cmap for k, _ in nl.gates):
            vt, vports, inst, _, _ = render.verilog(nl, cmap, render.DFF_CELLS['SAED90'], render.VOpts())
            cv = verilog.parse(vt, tlib=lib)
            cv.resolve_tlib_cells(lib)
            vn, vobs = tt(cv, out_names=[p for p in vports if p.startswith('o')])
            # align variables by name
            vmap = {f'i:i{k}': f'i:i{k}' for k in range(nl.n_in)}
            vmap.update({f's:{inst[k]}': f's:{states[k]}' for k in states})
            if 'i:clk' in vn:
                pass
            # compare through the AST: both must equal the AST function, so equality of each with the AST implies equivalence
            nvv = len(vn); npv = 1 << nvv; mv = (1 << npv) - 1
            colv = {nm: sum(1 << p for p in range(npv) if (p >> k) & 1) for k, nm in enumerate(vn)}
            vv = nl.eval2([colv[f'i:i{k}'] for k in range(nl.n_in)], [colv[f's:{inst[k]}'] for k in range(len(nl.states))], mv)
            for j, s in enumerate(nl.outs):
                if vobs.get(f'o:o{j}') != vv[s]:
                    res.violation(key + '/cross-format', case, f'Verilog rendering of the same netlist computes a different function at output {j}\n{vt}')
            res.count('cross_format')
        if any(x not in (0, mask) for x in exp.values()): res.sig(('b', case['nl'], devs))
        if len(res.samples) < 1 and case['opts']: res.samples.append({'opts': case['opts'], 'text': text})
    except Exception as ex:
        res.violation(key + f'/exception-{type(ex).__name__}', case, traceback.format_exc()[-1200:] + '\n' + case.get('text', ''))


def finish(agg, tier):
    need = ['v_cases', 'v_simulated', 'v_branchforks', 'b_cases', 'cross_format']
    missing = [k for k in need if not agg.counters.get(k)]
    if missing: raise common.HarnessError(f'vacuity guard: {missing} zero')
    return {}
