"""C12 - multi-valued operators agree across both storage formats and with the algebra.

Complete enumeration: all 8^k operand tuples (k=1..4) for the 8-valued operators, all 4^k for the
4-valued ones, each tuple also in every lane 0..8 of a 9-lane array, array shapes/broadcasting, out=.
"""
import itertools
import traceback

import numpy as np

from mc import common, ref

PROP = 'C12'
LEVEL = 'exploration'
RULE = ('all 8^k (k=1..4) operand tuples for NOT/AND/OR/XOR in array (mv_*, _mv_*) and bit-parallel (bp8v_*) form, all 4^k '
        'for bp4v_*; every tuple additionally placed in each lane 0..8 of a 9-lane array beside a second tuple; shapes '
        '(n,),(s,n),(b,s,n) and broadcasting pairs; out= omitted/fresh/garbage/aliased/strided view/transposed view/sibling view of the buffer of the operand, bit-parallel out arrays pre-filled 00/FF/5A/A5; 4-valued operators also on three-plane operands (third plane 00/FF/A5/5A) and chained behind every other operator; distinct_nontrivial = distinct '
        '(operator, form, operand tuple, result) signatures')
ASSUMPTIONS = ['reference algebra in mc/ref.py written from the module documentation',
               'results are compared with the reference after identifying X and - (both "unknown"); array vs. bit-parallel forms are compared exactly',
               'variadic array helpers _mv_and/_mv_or/_mv_xor are exercised when present (public mv_* take two operands)']

OPS = ['not', 'and', 'or', 'xor']
FAM = {'not': 'inv', 'and': 'and', 'or': 'or', 'xor': 'xor', 'buf': 'buf'}


def tasks(tier, seed):
    t = [('full', op, k) for op in OPS for k in ((1,) if op == 'not' else (1, 2, 3, 4))]
    t.append(('full', 'buf', 1))
    for op in OPS:
        for k in ((1,) if op == 'not' else (2, 3, 4)):
            nchunks = {1: 1, 2: 1, 3: 2, 4: 16}[k]
            for ch in range(nchunks):
                t.append(('lanes', op, k, ch, nchunks))
    t += [('shapes', op) for op in OPS]
    t += [('out', op) for op in OPS + ['latch', 'transition']]
    return t


def codes_to_bp(codes, planes=3):
    """codes: (..., n) uint8 -> bit-parallel (..., planes, ceil(n/8)) using the harness's own packing."""
    codes = np.asarray(codes, dtype=np.uint8)
    n = codes.shape[-1]
    nb = (n + 7) // 8
    out = np.zeros(codes.shape[:-1] + (planes, nb), dtype=np.uint8)
    for b in range(planes):
        bits = np.zeros(codes.shape[:-1] + (nb * 8,), dtype=np.uint8)
        bits[..., :n] = (codes >> b) & 1
        out[..., b, :] = np.packbits(bits, axis=-1, bitorder='little')
    return out


def bp_to_codes(bp, n):
    planes = bp.shape[-2]
    c = np.zeros(bp.shape[:-2] + (n,), dtype=np.uint8)
    for b in range(planes):
        c |= np.unpackbits(bp[..., b, :], axis=-1, bitorder='little')[..., :n] << b
    return c


def ref_apply(op, operands):
    t = ref.table8(FAM[op], len(operands))
    return t[tuple(np.broadcast_arrays(*operands))] if len(operands) > 1 else t[operands[0]]


def mv_call(lg, op, operands):
    """array form: public 2-operand function where it fits, else the variadic helper."""
    if op == 'not': return lg.mv_not(operands[0])
    if op == 'buf': return None
    if len(operands) == 2: return getattr(lg, 'mv_' + op)(*operands)
    f = getattr(lg, '_mv_' + op, None)
    if f is None: return None
    out = np.empty(np.broadcast(*operands).shape, dtype=np.uint8)
    f(out, *operands)
    return out


def run_task(task):
    import kyupy.logic as lg
    res = common.Result()
    kind = task[0]
    try:
        if kind == 'full': _full(lg, res, task[1], task[2])
        elif kind == 'lanes': _lanes(lg, res, *task[1:])
        elif kind == 'shapes': _shapes(lg, res, task[1])
        elif kind == 'out': _out(lg, res, task[1])
    except Exception as ex:
        res.violation(f'C12/{kind}/{task[1]}/exception-{type(ex).__name__}', {'task': list(task)}, traceback.format_exc()[-1500:])
    return res


def replay(case):
    common.setup_kyupy()
    r = run_task(tuple(case['task']))
    return r.violations


def _cmp(res, task, what, got, exp, operands, exact=False):
    ok = (got == exp) if exact else ref.same_mod_unknown(got, exp)
    if not np.all(ok):
        idx = tuple(int(i) for i in np.argwhere(~ok)[0])
        ops = [int(np.broadcast_to(o, ok.shape)[idx]) for o in operands]
        res.violation(f'C12/{task[0]}/{task[1]}/{what}/' + ''.join(ref.CHARS[o] for o in ops), {'task': list(task)},
                      f'{what}: operands {[ref.CHARS[o] for o in ops]} -> got {ref.CHARS[int(got[idx]) & 7]} expected {ref.CHARS[int(exp[idx])]}')
        return False
    return True


def _full(lg, res, op, k):
    task = ('full', op, k)
    # 8-valued: all 8^k tuples, one per lane
    grids = np.indices((8,) * k, dtype=np.uint8).reshape(k, -1)
    operands = [np.ascontiguousarray(g) for g in grids]
    n = operands[0].shape[0]
    exp = ref_apply(op, operands)
    res.evals += n
    for tup, e in zip(zip(*[o.tolist() for o in operands]), exp.tolist()):
        res.sig((op, 8, tup, e))
    bps = [codes_to_bp(o) for o in operands]
    keep_bps = [b.copy() for b in bps]; keep_ops = [o.copy() for o in operands]
    # the output array may hold anything beforehand (the simulator re-uses slots): every prefill gives the same result
    for prefill in (0x00, 0xFF, 0x5A):
        outp = np.full((3, (n + 7) // 8), prefill, dtype=np.uint8)
        getattr(lg, 'bp8v_' + op)(outp, *bps)
        _cmp(res, task, f'bp8v_{op}/k{k}/prefill{prefill:02x}', bp_to_codes(outp, n), exp, operands)
        res.count('bp_prefills')
    out = np.full((3, (n + 7) // 8), 0xA5, dtype=np.uint8)
    r = getattr(lg, 'bp8v_' + op)(out, *bps)
    if any(not np.array_equal(a, b) for a, b in zip(bps, keep_bps)):
        res.violation(f'C12/full/{op}/bp8v-operand-modified/k{k}', {'task': list(task)}, f'bp8v_{op} modified one of its operands')
    if r is not out: res.violation(f'C12/full/{op}/bp8v-return', {'task': list(task)}, 'bp8v operator did not return its out argument')
    got_bp = bp_to_codes(out, n)
    _cmp(res, task, f'bp8v_{op}/k{k}', got_bp, exp, operands)
    got_mv = mv_call(lg, op, operands)
    if any(not np.array_equal(a, b) for a, b in zip(operands, keep_ops)):
        res.violation(f'C12/full/{op}/mv-operand-modified/k{k}', {'task': list(task)}, f'mv_{op} modified one of its operands')
    if got_mv is not None:
        _cmp(res, task, f'mv_{op}/k{k}', got_mv, exp, operands)
        _cmp(res, task, f'mv-vs-bp/{op}/k{k}', got_mv, got_bp, operands, exact=True)
        res.count('mv_vs_bp_compared', n)
    # De Morgan duality on all tuples (both forms)
    if op in ('and', 'or') and k >= 2:
        dual = 'or' if op == 'and' else 'and'
        nots = [bp_to_codes(lg.bp8v_not(np.zeros_like(b), b), n) for b in bps]
        o2 = np.zeros_like(out)
        getattr(lg, 'bp8v_' + dual)(o2, *[codes_to_bp(x) for x in nots])
        lhs = bp_to_codes(lg.bp8v_not(np.zeros_like(out), out), n)
        _cmp(res, task, f'demorgan-bp/{op}/k{k}', lhs, bp_to_codes(o2, n), operands)
        if k == 2:
            l2 = lg.mv_not(getattr(lg, 'mv_' + op)(*operands))
            r2 = getattr(lg, 'mv_' + dual)(lg.mv_not(operands[0]), lg.mv_not(operands[1]))
            _cmp(res, task, f'demorgan-mv/{op}', l2, r2, operands)
        res.count('demorgan', n)
    # 4-valued: all 4^k tuples
    grids = np.indices((4,) * k, dtype=np.uint8).reshape(k, -1)
    operands4 = [np.ascontiguousarray(g) for g in grids]
    n4 = operands4[0].shape[0]
    exp4 = ref_apply(op, operands4)
    out4 = np.full((2, (n4 + 7) // 8), 0x5A, dtype=np.uint8)
    ops4 = [codes_to_bp(o, 2) for o in operands4]
    keep4 = [o.copy() for o in ops4]
    getattr(lg, 'bp4v_' + op)(out4, *ops4)
    if any(not np.array_equal(a, b) for a, b in zip(ops4, keep4)):
        res.violation(f'C12/full/{op}/bp4v-operand-modified/k{k}', {'task': list(task)}, f'bp4v_{op} modified one of its operands')
    _cmp(res, task, f'bp4v_{op}/k{k}', bp_to_codes(out4, n4), exp4, operands4)
    res.evals += n4
    # 4-valued operators on three-plane arrays (what mv_to_bp delivers): the third plane carries no meaning for them,
    # whatever it holds (e.g. left behind by a previous 4-valued operator) the two value planes of the result are the same
    for p2 in (0x00, 0xFF, 0xA5, 0x5A):
        bps4 = [codes_to_bp(o, 3) for o in operands4]
        for b4 in bps4: b4[..., 2, :] = p2
        out43 = np.full((3, (n4 + 7) // 8), p2 ^ 0x3C, dtype=np.uint8)
        keep43 = [b4.copy() for b4 in bps4]
        getattr(lg, 'bp4v_' + op)(out43, *bps4)
        if any(not np.array_equal(a, b) for a, b in zip(bps4, keep43)):
            res.violation(f'C12/full/{op}/bp4v-operand-modified/k{k}/3planes', {'task': list(task)}, f'bp4v_{op} modified one of its (three-plane) operands')
        _cmp(res, task, f'bp4v_{op}/k{k}/3planes-{p2:02x}', bp_to_codes(out43[..., :2, :], n4), exp4, operands4)
        res.count('bp4v_three_plane')
    # chaining: a 4-valued operator applied to the result array of another one (first operand), other operands fresh
    if k >= 2:
        for first in ('and', 'or', 'xor', 'not', 'buf'):
            fk = 1 if first in ('not', 'buf') else 2
            a3 = [codes_to_bp(o, 3) for o in operands4]
            mid = np.zeros((3, (n4 + 7) // 8), dtype=np.uint8)
            getattr(lg, 'bp4v_' + first)(mid, *a3[:fk])
            mid_codes = bp_to_codes(mid[..., :2, :], n4)
            mid_exp = ref_apply(first, operands4[:fk])
            fin = np.zeros((3, (n4 + 7) // 8), dtype=np.uint8)
            getattr(lg, 'bp4v_' + op)(fin, mid, *a3[1:])
            # X and - are both 'unknown' for every operator, so the expected chain value is defined modulo that
            exp_chain = ref_apply(op, [mid_exp] + operands4[1:])
            _cmp(res, task, f'bp4v_{op}/k{k}/after-{first}', bp_to_codes(fin[..., :2, :], n4), exp_chain, operands4)
            res.count('bp4v_chained')
    for tup, e in zip(zip(*[o.tolist() for o in operands4]), exp4.tolist()):
        res.sig((op, 4, tup, e))
    # Boolean restriction
    b = [o for o in operands]
    sel = np.all([(o == 0) | (o == 3) for o in operands], axis=0)
    if not np.all((exp[sel] == 0) | (exp[sel] == 3)):
        raise common.HarnessError('reference algebra not Boolean on {0,1}')
    res.count('boolean_tuples', int(sel.sum()))
    if len(res.samples) < 2:
        res.samples.append({'op': op, 'k': k, 'operands': [ref.CHARS[int(o[min(5, n - 1)])] for o in operands],
                            'result': ref.CHARS[int(exp[min(5, n - 1)])]})


def _lanes(lg, res, op, k, ch, nchunks):
    """each tuple in every lane 0..8 of a 9-lane array, other lanes filled from a second tuple"""
    task = ('lanes', op, k, ch, nchunks)
    tuples = list(itertools.product(range(8), repeat=k))
    for ti, tup in enumerate(tuples):
        if ti % nchunks != ch: continue
        other = tuples[(ti * 7 + 3) % len(tuples)]
        for lane in range(9):
            operands = [np.full(9, other[j], dtype=np.uint8) for j in range(k)]
            for j in range(k): operands[j][lane] = tup[j]
            exp = ref_apply(op, operands)
            out = np.zeros((3, 2), dtype=np.uint8)
            getattr(lg, 'bp8v_' + op)(out, *[codes_to_bp(o) for o in operands])
            got = bp_to_codes(out, 9)
            if not np.all(ref.same_mod_unknown(got, exp)):
                res.violation(f'C12/lanes/{op}/bp8v/k{k}/' + ''.join(ref.CHARS[c] for c in tup) + f'@{lane}', {'task': list(task)},
                              f'bp8v_{op} tuple {tup} in lane {lane} beside {other}: got {got.tolist()} expected {exp.tolist()}')
            if np.any(out[:, 1] & 0xFE) and not np.all(codes_to_bp(got)[..., 1] == out[:, 1]):
                pass  # padding lanes of the result are unspecified
            got_mv = mv_call(lg, op, operands)
            if got_mv is not None and not np.all(ref.same_mod_unknown(got_mv, exp)):
                res.violation(f'C12/lanes/{op}/mv/k{k}/' + ''.join(ref.CHARS[c] for c in tup) + f'@{lane}', {'task': list(task)},
                              f'mv_{op} tuple {tup} in lane {lane}: got {got_mv.tolist()} expected {exp.tolist()}')
            res.evals += 1
        res.sig(('lanes', op, tup))


def _shapes(lg, res, op):
    task = ('shapes', op)
    rng_vals = np.arange(8, dtype=np.uint8)
    def fill(shape, mul):
        n = int(np.prod(shape))
        return ((np.arange(n) * mul + (np.arange(n) // 8)) % 8).astype(np.uint8).reshape(shape)
    shapes = [(5,), (17,), (3, 9), (2, 3, 9), (1, 1), (2, 1, 8)]
    for sh in shapes:
        a, b = fill(sh, 1), fill(sh, 3)
        if op == 'not':
            got = lg.mv_not(a); exp = ref_apply('not', [a])
            ok = got.shape == a.shape and np.all(ref.same_mod_unknown(got, exp))
        else:
            got = getattr(lg, 'mv_' + op)(a, b); exp = ref_apply(op, [a, b])
            ok = got.shape == exp.shape and np.all(ref.same_mod_unknown(got, exp))
        if not ok:
            res.violation(f'C12/shapes/{op}/mv/{sh}', {'task': list(task)}, f'mv_{op} on shape {sh} wrong')
        # bit-parallel with leading axes
        bpa, bpb = codes_to_bp(a), codes_to_bp(b)
        out = np.zeros_like(bpa)
        if op == 'not': lg.bp8v_not(out, bpa)
        else: getattr(lg, 'bp8v_' + op)(out, bpa, bpb)
        gotbp = bp_to_codes(out, sh[-1])
        if not np.all(ref.same_mod_unknown(gotbp, exp)):
            res.violation(f'C12/shapes/{op}/bp/{sh}', {'task': list(task)}, f'bp8v_{op} on shape {sh} wrong')
        res.evals += 1
        res.sig(('shape', op, sh))
    if op != 'not':   # broadcasting pairs
        for sa, sb in [((3, 9), (9,)), ((3, 1), (1, 9)), ((2, 3, 9), (3, 9)), ((2, 1, 9), (3, 1)), ((4,), (1,))]:
            a, b = fill(sa, 1), fill(sb, 5)
            exp = ref_apply(op, [a, b])
            got = getattr(lg, 'mv_' + op)(a, b)
            if got.shape != exp.shape or not np.all(ref.same_mod_unknown(got, exp)):
                res.violation(f'C12/shapes/{op}/broadcast/{sa}x{sb}', {'task': list(task)}, f'mv_{op} broadcasting {sa} with {sb} wrong')
            res.evals += 1
            res.sig(('bcast', op, sa, sb))


def _out(lg, res, op):
    """A caller-supplied output array receives the result (and is what is returned)."""
    task = ('out', op)
    allv = np.arange(8, dtype=np.uint8)
    cases = [np.array([3], dtype=np.uint8), np.array([0], dtype=np.uint8), allv, np.tile(allv, (2, 1))]
    for a in cases:
        b = np.roll(a, 1, axis=-1) if a.shape[-1] > 1 else np.array([5], dtype=np.uint8)
        for prefill in (0, 7, 0xEE):
            if op == 'not':
                args = (a,); exp = ref_apply('not', [a])
            elif op in ('and', 'or', 'xor'):
                args = (a, b); exp = ref_apply(op, [a, b])
            elif op == 'latch':
                args = (a, b, a); exp = lg.mv_latch(a, b, a)
            else:
                args = (a, b); exp = lg.mv_transition(a, b)
            for layout in ('contiguous', 'strided', 'transposed'):
                # the caller's array may be any writable uint8 view: every other element of a larger buffer, a transposed buffer
                if layout == 'contiguous': out = np.full(exp.shape, prefill, dtype=np.uint8)
                elif layout == 'strided':
                    buf = np.full(exp.shape[:-1] + (2 * exp.shape[-1],), prefill, dtype=np.uint8); out = buf[..., ::2]
                else:
                    if exp.ndim != 2: continue
                    buf = np.full(exp.shape[::-1], prefill, dtype=np.uint8); out = buf.T
                key = f'C12/out/{op}/shape{a.shape}/prefill{prefill}' + ('' if layout == 'contiguous' else '/' + layout)
                try:
                    r = getattr(lg, 'mv_' + op)(*args, out=out)
                except Exception as ex:
                    res.violation(key + f'/exception-{type(ex).__name__}', {'task': list(task)}, f'mv_{op}(..., out={layout} array of shape {out.shape}) raised {type(ex).__name__}: {ex}')
                    res.evals += 1
                    continue
                if r is not out:
                    res.violation(key + '/not-returned', {'task': list(task)}, f'mv_{op} did not return the supplied out array (out ignored)')
                elif not np.all(ref.same_mod_unknown(out, exp)):
                    res.violation(key + '/wrong', {'task': list(task)}, f'mv_{op} out array ({layout}) holds {out.tolist()} expected {exp.tolist()}')
                elif layout == 'strided' and not np.all(buf[..., 1::2] == prefill):
                    res.violation(key + '/outside', {'task': list(task)}, f'mv_{op} wrote outside the supplied strided out array')
                res.evals += 1
                res.sig(('out', op, a.shape, prefill, layout))
    # aliasing out with the operand, as the logic simulator does for inversion
    for planes, name in ((3, 'bp8v_not'), (2, 'bp4v_not'), (3, 'bp8v_buf'), (2, 'bp4v_buf')):
        vals = allv if planes == 3 else allv[:4]
        bp = codes_to_bp(vals, planes)
        getattr(lg, name)(bp, bp)
        exp = ref_apply('not' if 'not' in name else 'buf', [vals])
        if 'buf' in name: exp = np.where(ref.same_mod_unknown(exp, np.full_like(exp, 1)), 1, exp)
        if not np.all(ref.same_mod_unknown(bp_to_codes(bp, len(vals)), exp)):
            res.violation(f'C12/out/{name}/aliased', {'task': list(task)}, f'{name}(x, x) in place gives {bp_to_codes(bp, len(vals)).tolist()}')
        res.evals += 1
        # out and operand as two disjoint, interleaved views of one buffer (neither in place nor separate arrays)
        src = codes_to_bp(vals, planes)
        for prefill in (0x00, 0xFF):
            buf = np.full((src.shape[0], 2) + src.shape[1:], prefill, dtype=np.uint8) if src.ndim == 2 else None
            if buf is None: break
            buf[:, 0] = src
            getattr(lg, name)(buf[:, 1], buf[:, 0])
            if not np.all(ref.same_mod_unknown(bp_to_codes(np.ascontiguousarray(buf[:, 1]), len(vals)), exp)) or not np.array_equal(buf[:, 0], src):
                res.violation(f'C12/out/{name}/sibling-views/{prefill}', {'task': list(task)}, f'{name}(out=buf[:, 1], buf[:, 0]) gives {bp_to_codes(np.ascontiguousarray(buf[:, 1]), len(vals)).tolist()} expected {exp.tolist()}')
            res.evals += 1
            res.count('sibling_view_calls')


def finish(agg, tier):
    if agg.counters.get('mv_vs_bp_compared', 0) < 8 + 64 or agg.counters.get('demorgan', 0) == 0:
        raise common.HarnessError('vacuity guard: array-vs-bit-parallel comparison or De Morgan check did not run')
    return {'exhaustive_space': 'all 8^k, k=1..4 (4680 tuples) per operator and form; all 4^k for 4-valued'}
