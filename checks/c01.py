"""C01 - 2-valued logic simulation computes the netlist's Boolean function.

E1 input-space enumeration: circuit families T1..T4 x build styles x ALL 0/1
assignments to inputs and state elements x batch layouts x cycle counts,
oracle = independent gate-by-gate reference evaluation of the AST.
"""
import traceback

import numpy as np

from mc import common, families as F, lsim
from mc.netlist import NL, STYLES, build

PROP = 'C01'
LEVEL = 'exploration'
RULE = ('cases = (netlist AST from families T1 single gate/T2 two-gate/T3 structural/T4 deep shapes) x build style x '
        'mode (full truth table in one batch, half of the netlists through c_prop with an observing callback | k clock cycles | batch window); every case simulates ALL 2^(I+S) '
        '0/1 assignments; distinct_nontrivial = number of distinct (structure-hash, observed output truth tables) '
        'signatures among cases whose outputs are not all constant')
ASSUMPTIONS = [
    'numba absent: _prop_cpu runs as plain Python (same source the jit would compile)',
    'domain D1-D5 of DESIGN.md (acyclic, state data pins connected, pure input or pure output ports)',
    'arity convention: variadic gates take pins 0..n-1, n decided by the highest connected pin (min 2); '
    'unconnected pins inside the range read constant 0',
]
IO_ORDERS = ['in_out', 'out_in', 'mixed']


def tasks(tier, seed):
    t = []
    nsl = 16
    for sl in range(nsl):
        t.append(('t1', sl, nsl, tier, seed))
        t.append(('t2', sl, nsl, tier, seed))
    t.append(('t4', 0, 1, tier, seed))
    t.append(('big', 0, 1, tier, seed))
    if tier == 'quick':
        for sk, gk in F.t3_shards(0, 2, F.T3_KINDS_QUICK): t.append(('t3', 2, sk, gk, tier, seed))
        for sk, gk in F.t3_shards(1, 1, F.T3_KINDS): t.append(('t3', 2, sk, gk, tier, seed))
        for sk, gk in F.t3_shards(2, 1, ['NAND2', 'INV1']): t.append(('t3', 1, sk, gk, tier, seed))
        # seed-selected extra slice of the thorough space
        shards = list(F.t3_shards(1, 2, F.T3_KINDS_QUICK))
        sk, gk = shards[seed % len(shards)]
        t.append(('t3', 2, sk, gk, tier, seed))
    else:
        for sk, gk in F.t3_shards(0, 2, F.T3_KINDS): t.append(('t3', 3, sk, gk, tier, seed))
        for sk, gk in F.t3_shards(1, 2, F.T3_KINDS_QUICK): t.append(('t3', 2, sk, gk, tier, seed))
        for sk, gk in F.t3_shards(2, 1, F.T3_KINDS): t.append(('t3', 2, sk, gk, tier, seed))
        for sk, gk in F.t3_shards(0, 3, ['NAND2', 'XOR2', 'INV1']): t.append(('t3', 2, sk, gk, tier, seed))
        for sk, gk in F.t3_shards(2, 2, ['NAND2', 'INV1']): t.append(('t3', 1, sk, gk, tier, seed))
        t = F.slice_t3_tasks(t, 1500)
    return t


def gen(task):
    fam = task[0]
    if fam == 't1': return F.take_slice(F.t1(), task[2], task[1])
    if fam == 't2': return F.take_slice(F.t2(), task[2], task[1])
    if fam == 't4': return F.t4()
    if fam == 'big': return F.big()
    if fam == 't3': return F.t3_shard(task[1], task[2], task[3], extra_tap=True)
    raise KeyError(fam)


def run_task(task):
    res = common.Result()
    tier, seed = task[-2], task[-1]
    for idx, nl in enumerate(gen(task)):
        if tier == 'thorough' or task[0] == 't4':
            styles = range(len(STYLES))
        else:
            styles = sorted({idx % len(STYLES), (idx // len(STYLES) + 1) % len(STYLES)})
        for si in styles:
            io_order = IO_ORDERS[(idx + si) % 3]
            check_case(res, {'nl': nl.to_json(), 'style': si, 'io_order': io_order, 'mode': 'tt', 'fam': task[0]})
            if nl.states or (idx + si) % 4 == 0:      # circuits without state elements, too: the inputs are held, every cycle gives the same outputs
                check_case(res, {'nl': nl.to_json(), 'style': si, 'io_order': io_order, 'mode': 'cycle', 'fam': task[0]})
        if task[0] in ('t2', 't4') and (idx % 29 == seed % 29 or tier == 'thorough' and idx % 5 == 0) or task[0] == 't4':
            check_case(res, {'nl': nl.to_json(), 'style': idx % len(STYLES), 'io_order': 'in_out', 'mode': 'batch', 'fam': task[0]})
    return res


def replay(case):
    res = common.Result()
    check_case(res, case, verbose=True)
    return res.violations


def _key(case, what):
    return f'C01/{what}/{common.h64(case["nl"]):016x}/s{case["style"]}/{case["mode"]}'


def check_case(res, case, verbose=False):
    from kyupy.logic_sim import LogicSim
    nl = NL.from_json(case['nl'])
    res.evals += 1
    res.count('cases_' + case['fam'] + '_' + case['mode'])
    try:
        b = build(nl, STYLES[case['style']], case['io_order'])
        ipos, opos, spos = b.s_pos()
        nI, nS = nl.n_in, len(nl.states)
        n = 1 << (nI + nS)
        mask = (1 << n) - 1
        # pattern p assigns bit k of p to variable k (inputs first, then state elements)
        var = [sum(1 << p for p in range(n) if (p >> k) & 1) for k in range(nI + nS)]
        in_vals, st_vals = var[:nI], var[nI:]
        mode = case['mode']
        if mode == 'tt':
            sim = LogicSim(b.circuit, sims=n, m=2)
            for k in range(nI): lsim.assign2(sim, ipos[k], in_vals[k], n)
            for k in range(nS): lsim.assign2(sim, spos[k], st_vals[k], n)
            if common.h64(case['nl']) & 1:
                # the same simulator object first processes the complemented batch: results must not depend on that history
                for k in range(nI): lsim.assign2(sim, ipos[k], ~in_vals[k] & mask, n)
                for k in range(nS): lsim.assign2(sim, spos[k], ~st_vals[k] & mask, n)
                sim.s_to_c(); sim.c_prop(); sim.c_to_s()
                for k in range(nI): lsim.assign2(sim, ipos[k], in_vals[k], n)
                for k in range(nS): lsim.assign2(sim, spos[k], st_vals[k], n)
                res.count('tt_with_history')
            if ((common.h64(case['nl']) >> 1) & 1) ^ (case['style'] & 1 if case['fam'] == 't1' else 0):      # single gates: both loops, by style
                # a callback that only looks at the values selects the simulator's second 2-valued evaluation loop: same function
                sim.s_to_c(); sim.c_prop(inject_cb=lambda line, values: None); sim.c_to_s()
                res.count('tt_with_observer_callback')
            else:
                sim.s_to_c(); sim.c_prop(); sim.c_to_s()
            v = nl.eval2(in_vals, st_vals, mask)
            sigparts = []
            for j, o in enumerate(nl.outs):
                got = lsim.read2(sim, 1, opos[j], n)
                sigparts.append(got)
                if got != v[o]:
                    res.violation(_key(case, f'out{j}'), case, f'output {j} ({o}): got {got:0{n}b} expected {v[o]:0{n}b} {nl}')
            for k, (_, d) in enumerate(nl.states):
                got = lsim.read2(sim, 1, spos[k], n)
                sigparts.append(got)
                if got != v[d]:
                    res.violation(_key(case, f'st{k}'), case, f'state {k} data ({d}): got {got:0{n}b} expected {v[d]:0{n}b} {nl}')
            if any(x not in (0, mask) for x in sigparts):
                res.sig((case['nl'], sigparts))
            if any(None in ops for _, ops in nl.gates): res.count('with_unconnected_pin')
            if len(nl.readers()) < len([1 for _ in nl.gates]) + 0: pass
            if any(f'g{k}' not in nl.readers() for k in range(len(nl.gates))): res.count('with_dangling_gate')
            if verbose: print('tt ok' if not res.violations else 'tt mismatch')
        elif mode == 'cycle':
            for cycles in (1, 2, 3):
                for manual in (False, True):
                    sim = LogicSim(b.circuit, sims=n, m=2)
                    for k in range(nI): lsim.assign2(sim, ipos[k], in_vals[k], n)
                    for k in range(nS): lsim.assign2(sim, spos[k], st_vals[k], n)
                    if manual:
                        for _ in range(cycles):
                            sim.s_to_c(); sim.c_prop(); sim.c_to_s(); sim.s_ppo_to_ppi()
                    else:
                        sim.cycle(cycles)
                    st = list(st_vals)
                    for _ in range(cycles):
                        nxt, v = nl.next_state2(in_vals, st, mask)
                        st = nxt
                    for k in range(nS):
                        got = lsim.read2(sim, 0, spos[k], n)
                        if got != st[k]:
                            res.violation(_key(case, f'cyc{cycles}{"m" if manual else ""}-st{k}'), case,
                                          f'after {cycles} cycles state {k}: got {got:0{n}b} expected {st[k]:0{n}b} {nl}')
                    for j, o in enumerate(nl.outs):
                        got = lsim.read2(sim, 1, opos[j], n)
                        if got != v[o]:
                            res.violation(_key(case, f'cyc{cycles}{"m" if manual else ""}-out{j}'), case,
                                          f'after {cycles} cycles output {j}: got {got:0{n}b} expected {v[o]:0{n}b} {nl}')
                    res.count('cycle_runs')
            res.sig((case['nl'], 'cycle'))
        elif mode == 'batch':
            v = nl.eval2(in_vals, st_vals, mask)
            for bsz in range(1, 18):
                for start in range(0, n, 3):
                    cnt = min(bsz, n - start)
                    sim = LogicSim(b.circuit, sims=cnt, m=2)
                    wmask = (1 << cnt) - 1
                    for k in range(nI): lsim.assign2(sim, ipos[k], (in_vals[k] >> start) & wmask, cnt)
                    for k in range(nS): lsim.assign2(sim, spos[k], (st_vals[k] >> start) & wmask, cnt)
                    sim.s_to_c(); sim.c_prop(); sim.c_to_s()
                    for j, o in enumerate(nl.outs):
                        got = lsim.read2(sim, 1, opos[j], cnt)
                        exp = (v[o] >> start) & wmask
                        if got != exp:
                            res.violation(_key(case, f'batch{bsz}@{start}-out{j}'), case,
                                          f'batch size {cnt} window start {start} output {j}: got {got:b} expected {exp:b} {nl}')
                    res.count('batch_runs')
            res.sig((case['nl'], 'batch'))
    except Exception as ex:
        res.violation(_key(case, 'exception-' + type(ex).__name__), case, traceback.format_exc()[-1500:])
    if len(res.samples) < 3:
        res.samples.append(case)


def finish(agg, tier):
    need = ['with_unconnected_pin', 'with_dangling_gate', 'cycle_runs', 'batch_runs', 'tt_with_history', 'tt_with_observer_callback']
    missing = [k for k in need if agg.counters.get(k, 0) == 0]
    if missing:
        raise common.HarnessError(f'vacuity guard: counters {missing} are zero')
    return {}
