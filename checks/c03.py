"""C03 - timing simulation settles to the Boolean function for any delays/capacity.

W1: all primitives x all input waveforms on a time grid x delay tables x capacities at the kernel seam.
W2: circuits x stimuli x deviation-bounded delay plans x capacity vectors through WaveSim.
"""
import itertools
import traceback

import numpy as np

from mc import common, families as F, ref, wsim
from mc.netlist import NL, STYLES, build
from mc.wsim import TMAX, TMIN
from checks import wave_common as W

PROP = 'C03'
LEVEL = 'exploration'
RULE = ('W1: every primitive (33 LUTs re-derived from the reference) x every tuple of input waveforms (initial value x subset of the time grid) x delay-table '
        'combinations x output capacity {4,8,16}; W2: family circuits x {0,1,R,F}^n stimuli with times {1,3} and multi-transition inputs (each case: a second stimulus round on the same simulator object) x delay plans with <= 1 '
        '(thorough 2) deviating lines x capacities (uniform 4/8/16, per-line patterns); oracle: initial value and initial-xor-parity of every waveform == Boolean '
        'function of the inputs\' initial/final values, terminator inside capacity, s[3]/s[6] agree; distinct_nontrivial = distinct (case, output waveform) signatures with >= 1 transition')
ASSUMPTIONS = ['times and delays are small dyadic rationals (exact in float32/float64)', 'memory reuse off so every line can be decoded',
               'numba absent: kernels execute as plain Python', 'input waveforms have strictly increasing times']


def tasks(tier, seed):
    return W.w1_tasks(tier, seed) + W.w2_tasks(tier, seed)


def run_task(task):
    res = common.Result()
    try:
        if task[0] == 'w1': run_w1(res, task)
        else: run_w2(res, task)
    except Exception as ex:
        res.violation(f'C03/{task[0]}/{task[1]}/exception-{type(ex).__name__}', {'kind': 'task', 'task': repr(task)}, traceback.format_exc()[-1500:])
    return res


def w1_case(res, K, case):
    kind, waves, dn, cap = case['gate'], case['waves'], case['delays'], case['cap']
    a = F.ARITY[kind]
    lut = W.lut_of(kind)
    (init, times, term, ovl), nr, nf, c, _ = K.run(lut, a, [(w[0], w[1]) for w in waves], dn, cap)
    res.evals += 1
    ii = [w[0] for w in waves]; ff = [w[0] ^ (len(w[1]) & 1) for w in waves]
    fam, _ = ref.effective_operands(kind, ['x'] * a)
    ei = ref.f2(fam, ii, 1); ef = ref.f2(fam, ff, 1)
    key = f'C03/w1/{kind}/' + '|'.join(f'{w[0]}:{",".join(str(int(t)) for t in w[1])}' for w in waves) + f'/{"".join(dn)}/cap{cap}'
    if init != ei: res.violation(key + '/initial', case, f'{kind}: output starts at {init}, function of initial values is {ei}')
    if (init ^ (len(times) & 1)) != ef: res.violation(key + '/final', case, f'{kind}: output ends at {init ^ (len(times) & 1)} ({len(times)} transitions), function of final values is {ef}')
    if not term: res.violation(key + '/terminator', case, f'{kind}: no terminator inside capacity {cap}')
    if init + len(times) + 1 > cap: res.violation(key + '/capacity', case, f'{kind}: {init + len(times) + 1} entries in capacity {cap}')
    if ovl: res.count('w1_overflows')
    if times: res.sig((kind, tuple(map(tuple, [(w[0], tuple(w[1])) for w in waves])), dn, cap, tuple(times)))


def run_w1(res, task):
    _, kind, T, caps, tier, seed = task
    a = F.ARITY[kind]
    K = W.Kernel(cap_in=8)
    wf = wsim.waveforms(T)
    for wi, waves in enumerate(itertools.product(wf, repeat=a)):
        for di, dn in enumerate(W.w1_delay_combos(a, tier, wi)):
            if tier == 'quick' and a >= 3 and (wi + di) % 3 != seed % 3: continue
            for cap in caps:
                w1_case(res, K, {'kind': 'w1', 'gate': kind, 'waves': [[w[0], w[1]] for w in waves], 'delays': list(dn), 'cap': cap})
    res.samples.append({'kind': 'w1', 'gate': kind, 'waves': [[1, [1.0, 3.0]]] * a, 'delays': ['d'] * a, 'cap': 4})


def cap_plans(nlines, tier, idx):
    yield 'u16', 16
    yield 'u4', 4
    if tier == 'thorough' or idx % 2 == 0: yield 'u8', 8
    v = [4 if (i + idx) % 2 else 8 for i in range(nlines)] + [4, 4, 4]
    yield 'alt', v
    yield 'low4', [4 if i < 6 else 16 for i in range(nlines)] + [4, 4, 4]       # small capacities on the lowest line indices only
    if tier == 'thorough':
        v = [8 if (i + idx) % 3 else 4 for i in range(nlines)] + [4, 4, 4]
        yield 'alt3', v


def w2_case(res, case, verbose=False):
    nl = NL.from_json(case['nl'])
    res.evals += 1
    key = f'C03/w2/{common.h64(case["nl"]):016x}/s{case["style"]}/{"".join(case["plan"])}/{case["capname"]}/{case["stim"]}'
    b = build(nl, STYLES[case['style']])
    c = b.circuit
    ipos, opos, spos = b.s_pos()
    nv = nl.n_in + len(nl.states)
    n, init, tt, fin = W.stim_for(nv)
    delays = wsim.delay_array(len(c.lines), case['plan'])
    sim = W.make_sim(c, delays, n, caps=case['caps'])
    ntrans = 0
    base = (init, tt, fin)
    # round 0: fresh simulator; round 1: the SAME simulator object gets a second, different stimulus (lanes rotated)
    # (after hand-written multi-transition input waveforms, round 1 goes back to plain s_to_c() stimuli on the same object)
    for rnd in (0, 1):
        perm = np.roll(np.arange(n), 5 * rnd)
        init, tt, fin = ([x[perm] for x in base[0]], [x[perm] for x in base[1]], [x[perm] for x in base[2]])
        rkey = key + (f'/round{rnd}' if rnd else '')
        W.assign(sim, ipos + spos, init, tt, fin)
        sim.s_to_c()
        ini_bits = [int(sum(int(v) << p for p, v in enumerate(x))) for x in init]
        fin_bits = [int(sum(int(v) << p for p, v in enumerate(x))) for x in fin]
        if case['stim'] == 'multi' and rnd == 0:
            # multi-transition waveforms written into the input slots (capacity 4: up to 3 entries + terminator)
            wf = wsim.waveforms(3, max_entries=3)
            for k, pos in enumerate(ipos + spos):
                loc = sim.c_locs[sim.ppi_offset + pos]
                if loc < 0: continue
                ib = fb = 0
                for lane in range(n):
                    w = wf[(lane // (len(wf) ** k)) % len(wf)] if k < 3 else wf[lane % len(wf)]
                    e = wsim.encode(w[0], [t + 0.5 * k for t in w[1]])
                    sim.c[loc:loc + 4, lane] = TMAX
                    sim.c[loc:loc + len(e), lane] = e
                    ib |= w[0] << lane; fb |= (w[0] ^ (len(w[1]) & 1)) << lane
                ini_bits[k], fin_bits[k] = ib, fb
        sim.c_prop()
        # captured initial and final values do not depend on the capture time (default = settled, 2.0 = amid the activity, 0.0)
        T = (None, 2.0, 0.0)[(common.h64((case['nl'], case['capname'])) + rnd) % 3]
        if T is None: sim.c_to_s()
        else: sim.c_to_s(time=T); res.count('w2_captures_at_finite_time')
        mask = (1 << n) - 1
        snodes = c.s_nodes
        src_nodes = [snodes[p].index for p in ipos + spos]
        gate = lambda kind, pins: ref.gate2(kind, pins, mask)
        vi = ref.graph_eval(c, dict(zip(src_nodes, ini_bits)), gate, lambda v: ~v & mask, 0)
        vf = ref.graph_eval(c, dict(zip(src_nodes, fin_bits)), gate, lambda v: ~v & mask, 0)
        for l in c.lines:
            loc, cap = int(sim.c_locs[l.index]), int(sim.c_caps[l.index])
            for lane in range(n):
                ini, times, term, ovl = wsim.decode(sim.c, loc, cap, lane)
                ntrans += len(times)
                if ovl: res.count('w2_overflow_lines')
                ei, ef = (vi[l.index] >> lane) & 1, (vf[l.index] >> lane) & 1
                if ini != ei:
                    res.violation(rkey + f'/line{l.index}-initial', case, f'line {l.index} lane {lane}: starts at {ini}, reference {ei} {nl}'); break
                if (ini ^ (len(times) & 1)) != ef:
                    res.violation(rkey + f'/line{l.index}-final', case, f'line {l.index} lane {lane}: ends at {ini ^ (len(times) & 1)} after {len(times)} transitions, reference {ef} {nl}'); break
                if not term:
                    res.violation(rkey + f'/line{l.index}-terminator', case, f'line {l.index} lane {lane}: no terminator inside capacity {cap} {nl}'); break
        for name, pos, node in [(f'out{j}', opos[j], b.out_nodes[j]) for j in range(len(nl.outs))] + [(f'st{k}', spos[k], b.st_nodes[k]) for k in range(len(nl.states))]:
            li = node.ins[0].index
            s3 = int(sum((1 << p) for p in range(n) if sim.s[3, pos, p] != 0))
            s6 = int(sum((1 << p) for p in range(n) if sim.s[6, pos, p] != 0))
            if s3 != vi[li]: res.violation(rkey + f'/{name}-s3', case, f'{name}: captured initial values {s3:b} reference {vi[li]:b} {nl}')
            if s6 != vf[li]: res.violation(rkey + f'/{name}-s6', case, f'{name}: captured final values {s6:b} reference {vf[li]:b} {nl}')
    if ntrans: res.sig((case['nl'], case['style'], tuple(case['plan']), case['capname'], case['stim'], ntrans))
    res.count('w2_cases')
    if case['stim'] == 'multi': res.count('w2_multi')
    res.count('w2_second_round')


def run_w2(res, task):
    tier, seed = task[4], task[5]
    for idx, nl in enumerate(W.w2_circuits(task)):
        si = idx % len(STYLES)
        b = build(nl, STYLES[si])
        nlines = len(b.circuit.lines)
        plans = list(wsim.delay_plans(nlines, 2 if tier == 'thorough' else 1))
        if tier == 'quick':
            dev = plans[1:]
            plans = [plans[0]] + [dev[(idx * 7 + seed) % len(dev)], dev[(idx * 13 + 5 * seed + 3) % len(dev)]] + [['z'] * nlines, ['d'] * nlines]
        for pi, plan in enumerate(plans):
            for capname, caps in cap_plans(nlines, tier, idx + pi):
                if tier == 'quick' and pi > 0 and capname != ('u4' if (pi + idx) % 2 else 'alt'): continue
                case = {'kind': 'w2', 'nl': nl.to_json(), 'style': si, 'plan': plan, 'caps': caps, 'capname': capname, 'stim': 'rf'}
                try:
                    w2_case(res, case)
                    if pi % 4 == 0 and capname in ('u4', 'u16'):
                        case = dict(case, stim='multi')
                        w2_case(res, case)
                except Exception as ex:
                    res.violation(f'C03/w2/{common.h64(case["nl"]):016x}/exception-{type(ex).__name__}', case, traceback.format_exc()[-1500:])
        if len(res.samples) < 1:
            res.samples.append({'kind': 'w2', 'nl': nl.to_json(), 'style': si, 'plan': plans[-1], 'capname': 'u4', 'stim': 'rf'})


def replay(case):
    common.setup_kyupy()
    res = common.Result()
    if case['kind'] == 'w1': w1_case(res, W.Kernel(8), case)
    elif case['kind'] == 'w2': w2_case(res, case, verbose=True)
    return res.violations


def finish(agg, tier):
    need = ['w1_overflows', 'w2_overflow_lines', 'w2_cases', 'w2_multi', 'w2_second_round']
    missing = [k for k in need if not agg.counters.get(k)]
    if missing: raise common.HarnessError(f'vacuity guard: {missing} zero')
    return {}
