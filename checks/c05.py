"""C05 - 8-valued logic simulation conservatively predicts timing simulation.

Differential check between the real LogicSim(m=8) and the real WaveSim on the W2 space, for every
option combination of both simulators.
"""
import itertools
import traceback

import numpy as np

from mc import common, families as F, lsim, ref, wsim
from mc.netlist import NL, STYLES, build
from mc.wsim import TMAX, TMIN
from checks import wave_common as W

PROP = 'C05'
LEVEL = 'exploration'
RULE = ('family circuits (T1 wave subset, T2 slice, T3 small, T4, T5) x ALL stimuli over {0,1,R,F}^n with transition times from {1,3} x delay plans (unit, zero, four-valued, '
        'deviating lines) x capacities {16, 4, per line: 4 on the lines whose index is a port position and 16 elsewhere} x {c_reuse} x {strip_forks} on both simulators; oracle: s[3]/s[6] == initial/final component of the 8-valued result at every output and '
        'state element, in the first clock cycle and (circuits with state elements, settled capture) in a second one that both simulators derive themselves with s_ppo_to_ppi; plain 0/1 => s[4]==TMAX, s[5]==TMIN and no finite entry in the waveform (every line when memory reuse is off); '
        'distinct_nontrivial = distinct (case, 8-valued output vector) signatures containing at least one R/F/P/N')
ASSUMPTIONS = ['LogicSim(m=8) is tied to the documented algebra by C02; here the two real implementations are compared with each other',
               'dyadic times and delays']


def tasks(tier, seed):
    return W.w2_tasks(tier, seed)


def run_task(task):
    res = common.Result()
    tier, seed = task[4], task[5]
    for idx, nl in enumerate(W.w2_circuits(task)):
        si = idx % len(STYLES)
        b = build(nl, STYLES[si])
        nlines = len(b.circuit.lines)
        dev = list(wsim.delay_plans(nlines, 1))[1:]
        plans = [['u'] * nlines, ['z'] * nlines, ['d'] * nlines, dev[(idx * 7 + seed) % len(dev)], ['e' if i % 2 else 'i' for i in range(nlines)]]
        if tier == 'quick': plans = [plans[(idx + seed) % len(plans)], plans[(idx + seed + 2) % len(plans)]]
        optsets = list(itertools.product((False, True), repeat=4))   # (w_reuse, w_strip, l_reuse, l_strip)
        for pi, plan in enumerate(plans):
            for oi, opts in enumerate(optsets):
                if tier == 'quick' and oi % 4 != (idx + pi) % 4: continue
                for caps in (16, 4, 'low4'):
                    if tier == 'quick' and caps == 4 and oi % 2: continue
                    if caps == 'low4' and (opts[1] or (tier == 'quick' and (oi + pi) % 2)): continue      # per-line capacities: not with stripped forks (branches share the stem)
                    case = {'nl': nl.to_json(), 'style': si, 'plan': plan, 'caps': caps, 'opts': list(opts)}
                    try:
                        check_case(res, case)
                    except Exception as ex:
                        res.violation(f'C05/{common.h64(case["nl"]):016x}/exception-{type(ex).__name__}', case, traceback.format_exc()[-1500:])
        if len(res.samples) < 1:
            res.samples.append({'nl': nl.to_json(), 'style': si, 'plan': plans[0], 'caps': 4, 'opts': [True, False, False, True]})
    return res


def replay(case):
    common.setup_kyupy()
    res = common.Result()
    try: check_case(res, case)
    except Exception as ex:
        res.violation(f'C05/{common.h64(case["nl"]):016x}/exception-{type(ex).__name__}', case, traceback.format_exc()[-1500:])
    return res.violations


def check_case(res, case):
    from kyupy.logic_sim import LogicSim
    nl = NL.from_json(case['nl'])
    res.evals += 1
    w_reuse, w_strip, l_reuse, l_strip = case['opts']
    b = build(nl, STYLES[case['style']])
    c = b.circuit
    key = f'C05/{common.h64(case["nl"]):016x}/s{case["style"]}/{"".join(case["plan"])}/cap{case["caps"]}/{int(w_reuse)}{int(w_strip)}{int(l_reuse)}{int(l_strip)}'
    ipos, opos, spos = b.s_pos()
    nv = nl.n_in + len(nl.states)
    n, init, tt, fin = W.stim_for(nv)
    delays = wsim.delay_array(len(c.lines), case['plan'])
    caps = case['caps']
    if caps == 'low4':      # small capacities exactly on the lines whose index equals a port / state-element position, 16 elsewhere
        caps = [4 if i < len(c.s_nodes) else 16 for i in range(len(c.lines))] + [4, 4, 4]
        res.count('per_line_capacities')
    ws = W.make_sim(c, delays, n, caps=caps, reuse=w_reuse, strip=w_strip)
    ls = LogicSim(c, sims=n, m=8, c_reuse=l_reuse, strip_forks=l_strip)
    if common.h64((case['nl'], case['opts'], case['caps'])) & 1:
        # both simulator objects first process another stimulus (lanes rotated): results must not depend on that history
        perm = np.roll(np.arange(n), 11)
        W.assign(ws, ipos + spos, [x[perm] for x in init], [x[perm] for x in tt], [x[perm] for x in fin])
        ws.s_to_c(); ws.c_prop(); ws.c_to_s()
        for k, pos in enumerate(ipos + spos):
            lsim.assign_codes(ls, pos, wsim.code8(init[k][perm], fin[k][perm]))
        ls.s_to_c(); ls.c_prop(); ls.c_to_s()
        res.count('cases_with_history')
    W.assign(ws, ipos + spos, init, tt, fin)
    # initial, final, earliest and latest do not depend on the capture time: default (settled), in the middle of the activity, at 0.0
    T = (None, 2.0, 0.0)[common.h64((case['nl'], case['caps'], 'T')) % 3]
    ws.s_to_c(); ws.c_prop()
    if T is None: ws.c_to_s()
    else: ws.c_to_s(time=T); res.count('captures_at_finite_time')
    for k, pos in enumerate(ipos + spos):
        lsim.assign_codes(ls, pos, wsim.code8(init[k], fin[k]))
    ls.s_to_c(); ls.c_prop(); ls.c_to_s()
    sigv = []
    def compare(tag):
        for j, pos in enumerate(opos + spos):
            code = lsim.read_codes(ls, 1, pos, n, 3)
            sigv.append(code.tobytes())
            if np.any((code == 1) | (code == 2)):
                res.violation(key + tag + f'/unknown-{j}', case, f'8-valued result unknown although all inputs are known {nl}'); continue
            li, lf = (code >> 1) & 1, code & 1
            s3, s6 = (ws.s[3, pos, :n] != 0).astype(np.uint8), (ws.s[6, pos, :n] != 0).astype(np.uint8)
            if not np.array_equal(s3, li):
                lane = int(np.flatnonzero(s3 != li)[0])
                res.violation(key + tag + f'/initial-{j}', case, f'output {j} lane {lane}: timing initial value {s3[lane]}, 8-valued logic {ref.CHARS[int(code[lane])]} {nl}')
            if not np.array_equal(s6, lf):
                lane = int(np.flatnonzero(s6 != lf)[0])
                res.violation(key + tag + f'/final-{j}', case, f'output {j} lane {lane}: timing final value {s6[lane]}, 8-valued logic {ref.CHARS[int(code[lane])]} {nl}')
            const = (code == 0) | (code == 3)
            bad = const & ((ws.s[4, pos, :n] != TMAX) | (ws.s[5, pos, :n] != TMIN))
            if np.any(bad):
                lane = int(np.flatnonzero(bad)[0])
                res.violation(key + tag + f'/hazard-{j}', case, f'output {j} lane {lane}: 8-valued logic says hazard-free {ref.CHARS[int(code[lane])]} but timing simulation has transitions in [{ws.s[4, pos, lane]}, {ws.s[5, pos, lane]}] {nl}')
            res.count('const_lanes', int(const.sum()))
            res.count('active_lanes', int((~const).sum()))

    compare('')
    if nl.states and T is None:
        # a second clock cycle: both simulators derive the new state-element stimulus themselves (previous final value ->
        # newly captured value, at time 0), the primary inputs repeat their transitions
        ws.s_ppo_to_ppi(); ls.s_ppo_to_ppi()
        ws.s_to_c(); ws.c_prop(); ws.c_to_s()
        ls.s_to_c(); ls.c_prop(); ls.c_to_s()
        compare('/cycle2')
        res.count('second_cycles')
    if not w_reuse and not l_reuse:
        # every internal line: both simulators hold it
        for l in c.lines:
            code = lsim.read_c_codes(ls, l.index, n)
            loc, cap = int(ws.c_locs[l.index]), int(ws.c_caps[l.index])
            for lane in range(n):
                cd = int(code[lane])
                ini, times, term, ovl = wsim.decode(ws.c, loc, cap, lane)
                if ini != ((cd >> 1) & 1) or (ini ^ (len(times) & 1)) != (cd & 1):
                    res.violation(key + f'/line{l.index}-values', case, f'line {l.index} lane {lane}: waveform init {ini} / {len(times)} transitions vs 8-valued {ref.CHARS[cd]} {nl}'); break
                if cd in (0, 3) and times:
                    res.violation(key + f'/line{l.index}-hazard', case, f'line {l.index} lane {lane}: 8-valued {ref.CHARS[cd]} (hazard-free) but waveform has transitions {times} {nl}'); break
        res.count('full_line_checks')
    if any(any(x >= 4 for x in v) for v in sigv): res.sig((case['nl'], case['style'], tuple(sigv)))


def finish(agg, tier):
    need = ['const_lanes', 'active_lanes', 'full_line_checks', 'cases_with_history', 'second_cycles', 'per_line_capacities']
    missing = [k for k in need if not agg.counters.get(k)]
    if missing: raise common.HarnessError(f'vacuity guard: {missing} zero')
    return {}
