"""C04 - transitions stay inside the static-timing window and move rigidly with the inputs.

Same W1 (kernel) and W2 (simulator) spaces as C03; oracles: (a) static-timing window, (b) exact shift,
(c) exact power-of-two scaling, (d) strictly increasing timestamps for polarity-independent delays.
"""
import itertools
import traceback

import numpy as np

from mc import common, families as F, ref, wsim
from mc.netlist import NL, STYLES, build
from mc.wsim import TMAX, TMIN
from checks import wave_common as W

PROP = 'C04'
LEVEL = 'exploration'
RULE = ('W1: every primitive x every tuple of input waveforms on a time grid x delay-table combinations x output capacities; W2: family circuits x {0,1,R,F} stimuli and '
        'multi-transition inputs x delay plans x capacities; each case is re-run shifted by delta in {-1, 5.25} (thorough 1/4, 1, 5, 64, -1, -3.5: to time 0 and below) and scaled by 2^k, k in {-24, 10}; the first shifted run re-uses the simulator object of the unshifted run; every W2 case also with c_reuse=True (windows at ports and state elements) '
        '(thorough -24, -12, -2, 1, 3, 14); oracles: window [min(first_i + min d_i), max(last_i + max d_i)], exact shift, exact scale, strict monotonicity for polarity-independent delays; '
        'distinct_nontrivial = distinct (case, output waveform) signatures with >= 1 transition')
ASSUMPTIONS = ['dyadic times/delays: every float operation is exact, so "exactly" is meaningful', 'delays >= 0; input waveforms strictly increasing',
               'window bounds use, per input line, the minimum/maximum of its four polarity entries (static timing analysis of the annotated netlist)']


def tasks(tier, seed):
    return W.w1_tasks(tier, seed) + W.w2_tasks(tier, seed)


def run_task(task):
    res = common.Result()
    try:
        if task[0] == 'w1': run_w1(res, task)
        else: run_w2(res, task)
    except Exception as ex:
        res.violation(f'C04/{task[0]}/{task[1]}/exception-{type(ex).__name__}', {'kind': 'task', 'task': repr(task)}, traceback.format_exc()[-1500:])
    return res


# -1.0 moves the earliest stimulus transition to time 0.0 exactly, -3.5 makes transition times negative
def shifts(tier): return (-1.0, 5.25) if tier == 'quick' else (0.25, 1.0, 5.0, 64.0, -1.0, -3.5)
# far-apart powers of two: an absolute time constant anywhere in the arithmetic (guard band, rounding, clipping) breaks scale invariance
# only once the time unit is much smaller or larger than the constant; every scaling by 2^k is exact in float32
def scales(tier): return (2.0 ** -24, 2.0 ** 10) if tier == 'quick' else (0.25, 2.0, 8.0, 2.0 ** -12, 2.0 ** -24, 2.0 ** 14)


def kernel_scaled(K, lut, a, waves, dn, cap, shift=0.0, scale=1.0):
    """runs the kernel with all input times shifted/scaled and all delays scaled"""
    cin = K.cap_in
    c_locs = np.array([0, cin, 2 * cin, 3 * cin, 4 * cin, 4 * cin + 16], dtype=np.int32)
    c_caps = np.array([cin, cin, cin, cin, cap, cin], dtype=np.int32)
    c = np.full((4 * cin + 16 + cin, 1), TMAX, dtype=np.float32)
    for k, (init, times) in enumerate(waves):
        e = wsim.encode(init, [(t + shift) * scale for t in times])
        c[c_locs[k]:c_locs[k] + len(e), 0] = e
    idx = [k if k < a else 5 for k in range(4)]
    op = np.array([lut, 4, idx[0], idx[1], idx[2], idx[3], -1, 0, 0], dtype=np.int32)
    delays = np.zeros((1, 6, 2, 2))
    for k in range(a): delays[0, k] = np.asarray(wsim.DELAY_TABLES[dn[k]]) * scale
    K.eval(op, c, c_locs, c_caps, 0, delays, np.asarray([0, 0], dtype=np.int32))
    return wsim.decode(c, int(c_locs[4]), cap, 0)


def w1_case(res, K, case, tier):
    kind, waves, dn, cap = case['gate'], case['waves'], case['delays'], case['cap']
    a = F.ARITY[kind]
    lut = W.lut_of(kind)
    res.evals += 1
    init, times, term, ovl = kernel_scaled(K, lut, a, waves, dn, cap)
    key = f'C04/w1/{kind}/' + '|'.join(f'{w[0]}:{",".join(str(int(t)) for t in w[1])}' for w in waves) + f'/{"".join(dn)}/cap{cap}'
    # (a) window
    los = [w[1][0] + float(np.min(wsim.DELAY_TABLES[dn[k]])) for k, w in enumerate(waves) if w[1]]
    his = [w[1][-1] + float(np.max(wsim.DELAY_TABLES[dn[k]])) for k, w in enumerate(waves) if w[1]]
    if times:
        if not los:
            res.violation(key + '/window', case, f'{kind}: output transitions {times} although no input has a transition')
        elif min(times) < min(los) or max(times) > max(his):
            res.violation(key + '/window', case, f'{kind}: output times {times} outside static window [{min(los)}, {max(his)}]')
    # (d) monotonic
    if all(d in wsim.UNIFORM for d in dn):
        if any(t2 <= t1 for t1, t2 in zip(times, times[1:])):
            res.violation(key + '/monotonic', case, f'{kind}: polarity-independent delays but times {times} not strictly increasing')
        res.count('w1_monotonic_checked')
    # (b) shift
    for d in shifts(tier):
        i2, t2, term2, ovl2 = kernel_scaled(K, lut, a, waves, dn, cap, shift=d)
        if i2 != init or ovl2 != ovl or t2 != [t + d for t in times]:
            res.violation(key + f'/shift{d}', case, f'{kind}: inputs shifted by {d}: output {t2} (ovl {ovl2}) expected {[t + d for t in times]} (ovl {ovl})')
    # (c) scale
    for s in scales(tier):
        i2, t2, term2, ovl2 = kernel_scaled(K, lut, a, waves, dn, cap, scale=s)
        if i2 != init or ovl2 != ovl or t2 != [t * s for t in times]:
            res.violation(key + f'/scale{s}', case, f'{kind}: times and delays scaled by {s}: output {t2} (ovl {ovl2}) expected {[t * s for t in times]} (ovl {ovl})')
    if times: res.sig((kind, repr(waves), tuple(dn), cap, tuple(times)))
    if ovl: res.count('w1_overflows')


def run_w1(res, task):
    _, kind, T, caps, tier, seed = task
    a = F.ARITY[kind]
    K = W.Kernel(cap_in=8)
    wf = wsim.waveforms(T)
    for wi, waves in enumerate(itertools.product(wf, repeat=a)):
        for di, dn in enumerate(W.w1_delay_combos(a, tier, wi)):
            if tier == 'quick' and (wi + di) % 3 != seed % 3: continue
            for cap in caps:
                if tier == 'quick' and cap == 16: continue
                w1_case(res, K, {'kind': 'w1', 'gate': kind, 'waves': [[w[0], w[1]] for w in waves], 'delays': list(dn), 'cap': cap, 'tier': tier}, tier)
    res.samples.append({'kind': 'w1', 'gate': kind, 'waves': [[0, [1.0, 2.0]]] * a, 'delays': ['i'] * a, 'cap': 8})


def simulate(b, nl, plan, caps, stim, shift=0.0, scale=1.0, reuse=False, sim=None):
    c = b.circuit
    ipos, opos, spos = b.s_pos()
    nv = nl.n_in + len(nl.states)
    n, init, tt, fin = W.stim_for(nv)
    delays = wsim.delay_array(len(c.lines), plan) * scale
    if sim is None: sim = W.make_sim(c, delays, n, caps=caps, reuse=reuse)      # else: the given simulator object runs again
    tt2 = [(t + np.float32(shift)) * np.float32(scale) for t in tt]
    W.assign(sim, ipos + spos, init, tt2, fin)
    sim.s_to_c()
    in_times = {}
    for k, pos in enumerate(ipos + spos):
        in_times[pos] = [([float(tt[k][lane])] if init[k][lane] != fin[k][lane] else []) for lane in range(n)]
    if stim == 'multi':
        wf = wsim.waveforms(3, max_entries=3)
        for k, pos in enumerate(ipos + spos):
            loc = sim.c_locs[sim.ppi_offset + pos]
            if loc < 0: continue
            for lane in range(n):
                w = wf[(lane // (len(wf) ** k)) % len(wf)] if k < 3 else wf[lane % len(wf)]
                base = [t + 0.5 * k for t in w[1]]
                e = wsim.encode(w[0], [(t + shift) * scale for t in base])
                sim.c[loc:loc + 4, lane] = TMAX
                sim.c[loc:loc + len(e), lane] = e
                in_times[pos][lane] = base
    sim.c_prop()
    sim.c_to_s()
    return sim, n, in_times


def w2_case(res, case, tier):
    nl = NL.from_json(case['nl'])
    res.evals += 1
    key = f'C04/w2/{common.h64(case["nl"]):016x}/s{case["style"]}/{"".join(case["plan"])}/{case["capname"]}/{case["stim"]}'
    b = build(nl, STYLES[case['style']])
    c = b.circuit
    ipos, opos, spos = b.s_pos()
    sim, n, in_times = simulate(b, nl, case['plan'], case['caps'], case['stim'])
    snodes = c.s_nodes
    dl = wsim.delay_array(len(c.lines), case['plan'])[0]
    uniform = all(p in wsim.UNIFORM for p in case['plan'])
    # (a) windows, lane by lane (only lanes needed: all)
    nviol = 0
    for lane in range(n):
        inw = {}
        for pos, tl in in_times.items():
            inw[snodes[pos].index] = (tl[lane][0], tl[lane][-1]) if tl[lane] else None
        win = wsim.line_window(c, dl, inw)
        for l in c.lines:
            ini, times, term, ovl = wsim.decode(sim.c, int(sim.c_locs[l.index]), int(sim.c_caps[l.index]), lane)
            w = win[l.index]
            if times and (w is None or min(times) < w[0] or max(times) > w[1]):
                res.violation(key + f'/line{l.index}-window', case, f'line {l.index} lane {lane}: times {times} outside static window {w} {nl}'); nviol += 1
            if uniform and any(t2 <= t1 for t1, t2 in zip(times, times[1:])):
                res.violation(key + f'/line{l.index}-monotonic', case, f'line {l.index} lane {lane}: times {times} not strictly increasing {nl}'); nviol += 1
        for j, pos in enumerate(opos + spos):
            node = (b.out_nodes + b.st_nodes)[j]
            w = win[node.ins[0].index]
            eat, lst = float(sim.s[4, pos, lane]), float(sim.s[5, pos, lane])
            if eat < float(TMAX) and (w is None or eat < w[0]):
                res.violation(key + f'/s4-{j}', case, f'earliest arrival {eat} before window {w} lane {lane} {nl}'); nviol += 1
            if lst > float(TMIN) and (w is None or lst > w[1]):
                res.violation(key + f'/s5-{j}', case, f'latest stabilisation {lst} after window {w} lane {lane} {nl}'); nviol += 1
        if nviol > 5: break
    if uniform: res.count('w2_monotonic_checked')
    # the same windows with waveform memory re-used between levels: only ports and state elements stay readable
    simr, _, _ = simulate(b, nl, case['plan'], case['caps'], case['stim'], reuse=True)
    for lane in range(n):
        inw = {}
        for pos, tl in in_times.items():
            inw[snodes[pos].index] = (tl[lane][0], tl[lane][-1]) if tl[lane] else None
        win = wsim.line_window(c, dl, inw)
        for j, pos in enumerate(opos + spos):
            node = (b.out_nodes + b.st_nodes)[j]
            w = win[node.ins[0].index]
            eat, lst = float(simr.s[4, pos, lane]), float(simr.s[5, pos, lane])
            if eat < float(TMAX) and (w is None or eat < w[0]):
                res.violation(key + f'/reuse-s4-{j}', case, f'c_reuse=True: earliest arrival {eat} before window {w} lane {lane} {nl}'); nviol += 1
            if lst > float(TMIN) and (w is None or lst > w[1]):
                res.violation(key + f'/reuse-s5-{j}', case, f'c_reuse=True: latest stabilisation {lst} after window {w} lane {lane} {nl}'); nviol += 1
            l = node.ins[0]
            ini, times, term, ovl = wsim.decode(simr.c, int(simr.c_locs[l.index]), int(simr.c_caps[l.index]), lane)
            if times and (w is None or min(times) < w[0] or max(times) > w[1]):
                res.violation(key + f'/reuse-line{l.index}-window', case, f'c_reuse=True: line {l.index} lane {lane}: times {times} outside static window {w} {nl}'); nviol += 1
            if uniform and any(t2 <= t1 for t1, t2 in zip(times, times[1:])):
                res.violation(key + f'/reuse-line{l.index}-monotonic', case, f'c_reuse=True: line {l.index} lane {lane}: times {times} not strictly increasing {nl}'); nviol += 1
        if nviol > 5: break
    res.count('w2_reuse_runs')
    c0 = np.array(sim.c, dtype=np.float64)
    finite = np.abs(c0) < 2.0 ** 100
    ntrans = int(finite.sum())
    ovl0 = np.array(sim.s[10], copy=True)
    for di, d in enumerate(shifts(tier) if tier == 'thorough' else shifts(tier)[case.get('rot', 0) % 2:][:1]):
        # the first shifted run re-uses the simulator object of the unshifted run (shifting the inputs of an object shifts its waveforms)
        sim2, _, _ = simulate(b, nl, case['plan'], case['caps'], case['stim'], shift=d, sim=sim if di == 0 else None)
        if di == 0: res.count('w2_shift_on_same_object')
        exp = np.where(finite, c0 + d, c0)
        if not np.array_equal(np.array(sim2.c, dtype=np.float64), exp):
            bad = np.argwhere(np.array(sim2.c, dtype=np.float64) != exp)[0]
            res.violation(key + f'/shift{d}', case, f'inputs shifted by {d}: memory cell {bad.tolist()} is {sim2.c[tuple(bad)]} expected {exp[tuple(bad)]} {nl}')
        if not np.array_equal(sim2.s[10], ovl0): res.violation(key + f'/shift{d}-ovl', case, 'overflow flags changed under shift')
    for s in (scales(tier) if tier == 'thorough' else scales(tier)[case.get('rot', 0) % 2:][:1]):
        sim2, _, _ = simulate(b, nl, case['plan'], case['caps'], case['stim'], scale=s)
        exp = np.where(finite, c0 * s, c0)
        if not np.array_equal(np.array(sim2.c, dtype=np.float64), exp):
            bad = np.argwhere(np.array(sim2.c, dtype=np.float64) != exp)[0]
            res.violation(key + f'/scale{s}', case, f'times and delays scaled by {s}: memory cell {bad.tolist()} is {sim2.c[tuple(bad)]} expected {exp[tuple(bad)]} {nl}')
    if ntrans: res.sig((case['nl'], case['style'], tuple(case['plan']), case['capname'], case['stim'], ntrans))
    res.count('w2_cases')


def run_w2(res, task):
    tier, seed = task[4], task[5]
    for idx, nl in enumerate(W.w2_circuits(task)):
        if tier == 'quick' and idx % 4 != seed % 4 and task[1] != 'wide': continue
        si = (idx // 4 if tier == 'quick' else idx) % len(STYLES)
        b = build(nl, STYLES[si])
        nlines = len(b.circuit.lines)
        dev = list(wsim.delay_plans(nlines, 2 if tier == 'thorough' else 1))[1:]
        plans = [['u'] * nlines, ['d'] * nlines, ['q' if i % 2 else 'w' for i in range(nlines)], ['z'] * nlines, dev[(idx * 7 + seed) % len(dev)]]
        if tier == 'thorough': plans += dev[idx % 3::3]
        for pi, plan in enumerate(plans):
            for capname, caps in (('u16', 16), ('u4', 4)) if pi < 3 else (('u4', 4),):
                for stim in ('rf', 'multi') if pi in (1, 2) else ('rf',):
                    case = {'kind': 'w2', 'nl': nl.to_json(), 'style': si, 'plan': plan, 'caps': caps, 'capname': capname, 'stim': stim, 'tier': tier, 'rot': idx + pi}
                    try:
                        w2_case(res, case, tier)
                    except Exception as ex:
                        res.violation(f'C04/w2/{common.h64(case["nl"]):016x}/exception-{type(ex).__name__}', case, traceback.format_exc()[-1500:])
        if len(res.samples) < 1:
            res.samples.append({'kind': 'w2', 'nl': nl.to_json(), 'style': si, 'plan': plans[1], 'capname': 'u4', 'stim': 'multi'})


def replay(case):
    common.setup_kyupy()
    res = common.Result()
    if case['kind'] == 'w1': w1_case(res, W.Kernel(8), case, case.get('tier', 'quick'))
    elif case['kind'] == 'w2': w2_case(res, case, case.get('tier', 'quick'))
    return res.violations


def finish(agg, tier):
    need = ['w1_overflows', 'w1_monotonic_checked', 'w2_monotonic_checked', 'w2_cases', 'w2_reuse_runs', 'w2_shift_on_same_object']
    missing = [k for k in need if not agg.counters.get(k)]
    if missing: raise common.HarnessError(f'vacuity guard: {missing} zero')
    return {}
