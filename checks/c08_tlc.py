"""E4 for C08: TLC explores tla/Heap.tla completely (bounded); every reachable model state carries its
action history; each history is replayed on the real kyupy.sim.Heap and all four fields plus every
returned location are compared with the model (conformance of model and implementation)."""
import ast
import os
import re
import shutil
import subprocess
import tempfile

from mc import common

CONFIGS = [
    # (Sizes, MaxLive, MaxDepth)
    ('{1, 2}', 4, 8),
    ('{1, 2, 3}', 3, 7),
    ('{4, 8}', 5, 7),
]


def parse_value(txt):
    return ast.literal_eval(txt.replace('<<', '[').replace('>>', ']'))


def run(res, configs=CONFIGS):
    from kyupy.sim import Heap
    tla_dir = os.path.join(common.VERIF, 'tla')
    if shutil.which('tlc') is None:
        res.count('tlc_unavailable')
        res.samples.append({'kind': 'tlc', 'note': 'tlc not found on PATH; E4 skipped, verdict rests on E2'})
        return
    for sizes, maxlive, maxdepth in configs:
        work = tempfile.mkdtemp(prefix='kyupy_tlc_')
        try:
            shutil.copy(os.path.join(tla_dir, 'Heap.tla'), work)
            with open(os.path.join(work, 'Heap.cfg'), 'w') as f:
                f.write(f'CONSTANTS\n  Sizes = {sizes}\n  MaxLive = {maxlive}\n  MaxDepth = {maxdepth}\nSPECIFICATION Spec\n'
                        'INVARIANTS Tiling NoAdjacentFree NoTrailingFree HighWater NoOverlap\n')
            p = subprocess.run(['tlc', '-workers', '8', '-deadlock', '-noGenerateSpecTE', '-metadir', os.path.join(work, 'meta'),
                                '-dump', os.path.join(work, 'states'), 'Heap.tla'], cwd=work, capture_output=True, text=True, timeout=3000,
                               env=dict(os.environ, JAVA_TOOL_OPTIONS=f'-Djava.io.tmpdir={work}'))   # TLC's own scratch directory goes away with work
            out = p.stdout
            if 'No error has been found' not in out:
                res.violation(f'C08/tlc/model/{sizes}-{maxlive}-{maxdepth}', {'kind': 'tlc', 'config': [sizes, maxlive, maxdepth]},
                              'TLC reports an invariant violation or error in the allocator model:\n' + out[-1500:])
                continue
            m = re.search(r'(\d+) states generated, (\d+) distinct states found', out)
            res.count('tlc_distinct_states', int(m.group(2)) if m else 0)
            txt = open(os.path.join(work, 'states.dump')).read()
            nstates = 0
            for block in txt.split('State ')[1:]:
                fields = {k: ' '.join(v.split()) for k, v in re.findall(r'/\\ (\w+) = ((?:.|\n)*?)(?=\n/\\ |\n\n|\Z)', block)}
                mem, maxsz, hist = parse_value(fields['mem']), int(fields['maxsz']), parse_value(fields['hist'])
                nstates += 1
                # replay the model trace on the implementation
                h = Heap()
                ok = True
                for step, (act, a, b) in enumerate(hist):
                    if act == 'alloc':
                        got = h.alloc(a)
                        if got != b:
                            res.violation('C08/tlc/alloc-result', {'kind': 'heap', 'history': [[x[0], x[1]] for x in hist[:step + 1]]},
                                          f'model trace {hist[:step + 1]}: implementation returned {got}, model {b}')
                            ok = False; break
                    else:
                        h.free(a)
                    res.transitions += 1
                if not ok: continue
                chunks = {c[0]: c[1] for c in mem}
                released = [c[0] for c in mem if c[2] == 1]
                cur = (mem[-1][0] + mem[-1][1]) if mem else 0
                if dict(h.chunks) != chunks or list(h.released) != released or h.current_size != cur or h.max_size != maxsz:
                    res.violation('C08/tlc/state-mismatch', {'kind': 'heap', 'history': [[x[0], x[1]] for x in hist]},
                                  f'after model trace {hist}: implementation chunks={sorted(h.chunks.items())} released={h.released} size={h.current_size} max={h.max_size}; '
                                  f'model mem={mem} maxsz={maxsz}')
                res.validated += 1
                res.states += 1
            res.evals += nstates
            if m and nstates != int(m.group(2)):
                raise common.HarnessError(f'parsed {nstates} states from the dump, TLC reports {m.group(2)}')
            res.samples.append({'kind': 'tlc', 'config': [sizes, maxlive, maxdepth], 'states_replayed': nstates})
        finally:
            shutil.rmtree(work, ignore_errors=True)
