"""C02 - 4-/8-valued simulation follows the documented algebra and is X-sound.

E1: circuit families x ALL assignments over {0,1,X,-} (m=4) and all eight values (m=8), oracle =
reference algebra composition (mod X/-), direct X-soundness over all completions, and
initial/final component agreement with the 2-valued reference.
"""
import itertools
import traceback

import numpy as np

from mc import common, families as F, lsim, ref
from mc.netlist import NL, STYLES, build

PROP = 'C02'
LEVEL = 'exploration'
RULE = ('cases = netlist (T1 single gate incl. unconnected pins, T2 two-gate with shared inputs, T3 structural with state elements, T4, constants family; the constants family, T4 and a slice of T1 also with c_reuse=True on an object that first propagated a rotated assignment) x '
        'build style x logic m in {4,8}; every case simulates ALL 4^n / 8^n assignments (n = inputs + state elements <= 4) in one batch; '
        'oracles: (a) captured value == reference algebra (X and - identified), (b) every 0/1 result agrees with the 2-valued reference on '
        'every 0/1 completion of the unknown inputs, (c) 8-valued: initial/final components == 2-valued reference of the inputs\' components; '
        'distinct_nontrivial = distinct (netlist, m, result table) signatures with a non-constant result')
ASSUMPTIONS = ['X and - are both "no known value": a wire/fork copies - while an operator turns it into X; compared after identification',
               'same domain and arity convention as C01', 'numba absent: pure-Python execution of the same source']


def tasks(tier, seed):
    t = []
    for sl in range(32): t.append(('t1', sl, 32, tier, seed))
    for sl in range(32): t.append(('t2s', sl, 32, tier, seed))
    t.append(('t4', 0, 1, tier, seed))
    t.append(('big', 0, 1, tier, seed))
    t.append(('consts', 0, 1, tier, seed))
    if tier == 'quick':
        for sk, gk in F.t3_shards(1, 1, F.T3_KINDS): t.append(('t3', 2, sk, gk, tier, seed))
        for sk, gk in F.t3_shards(0, 2, F.T3_KINDS_QUICK): t.append(('t3', 2, sk, gk, tier, seed))
        shards = list(F.t3_shards(1, 2, F.T3_KINDS_QUICK))
        sk, gk = shards[seed % len(shards)]
        t.append(('t3', 2, sk, gk, tier, seed))
    else:
        for sk, gk in F.t3_shards(1, 1, F.T3_KINDS): t.append(('t3', 2, sk, gk, tier, seed))
        for sk, gk in F.t3_shards(0, 2, F.T3_KINDS): t.append(('t3', 3, sk, gk, tier, seed))
        for sk, gk in F.t3_shards(1, 2, F.T3_KINDS_QUICK): t.append(('t3', 2, sk, gk, tier, seed))
        for sk, gk in F.t3_shards(2, 1, F.T3_KINDS_QUICK): t.append(('t3', 2, sk, gk, tier, seed))
        t = F.slice_t3_tasks(t, 1500)
    return t


COMPLEX = [k for k in ref.PRIMITIVES_33 if ref.family(k)[1] not in ('var', 'unary')]


def gen(task):
    fam, tier = task[0], task[-2]
    if fam == 't1': return F.take_slice(F.t1(), task[2], task[1])
    if fam == 't2s':
        if tier == 'quick':   # complex kinds (two scratch locations) against all kinds, both directions
            g = itertools.chain(F.t2(COMPLEX, shared=True), F.t2([k for k in ref.PRIMITIVES_33 if k not in COMPLEX], shared=True, kinds1=COMPLEX))
        else:
            g = F.t2(shared=True)
        return F.take_slice(g, task[2], task[1])
    if fam == 't4': return F.t4()
    if fam == 'big': return F.big()
    if fam == 'consts':
        from checks.c16 import consts
        return consts()
    if fam == 't3': return F.t3_shard(task[1], task[2], task[3], extra_tap=False)
    raise KeyError(fam)


def run_task(task):
    res = common.Result()
    tier, seed = task[-2], task[-1]
    for idx, nl in enumerate(gen(task)):
        styles = range(len(STYLES)) if (tier == 'thorough' and task[0] != 't1') or task[0] in ('t4', 'consts') else [idx % len(STYLES)]
        for si in styles:
            for m in (4, 8):
                check_case(res, {'nl': nl.to_json(), 'style': si, 'm': m, 'fam': task[0], 'mode': 'full'})
                if task[0] in ('consts', 't4') or (task[0] == 't1' and idx % 7 == seed % 7):
                    check_case(res, {'nl': nl.to_json(), 'style': si, 'm': m, 'fam': task[0], 'mode': 'full', 'reuse': True})
        if task[0] in ('t2s', 't4') and idx % 23 == seed % 23:
            check_case(res, {'nl': nl.to_json(), 'style': idx % len(STYLES), 'm': 8, 'fam': task[0], 'mode': 'batch'})
            check_case(res, {'nl': nl.to_json(), 'style': idx % len(STYLES), 'm': 4, 'fam': task[0], 'mode': 'batch'})
    return res


def replay(case):
    common.setup_kyupy()
    res = common.Result()
    check_case(res, case)
    return res.violations


def _key(case, what):
    return f'C02/{what}/m{case["m"]}/{common.h64(case["nl"]):016x}/s{case["style"]}/{case["mode"]}{"-reuse" if case.get("reuse") else ""}'


def lanes(n, A):
    """code arrays for n variables over alphabet size A: lane p gives variable k the code (p // A^k) % A"""
    p = np.arange(A ** n, dtype=np.int64)
    return [((p // (A ** k)) % A).astype(np.uint8) for k in range(n)]


def fmt(codes):
    return ''.join(ref.CHARS[int(c) & 7] for c in codes)


def check_case(res, case):
    from kyupy.logic_sim import LogicSim
    nl = NL.from_json(case['nl'])
    m = case['m']
    res.evals += 1
    res.count(f'cases_{case["fam"]}_m{m}_{case["mode"]}')
    try:
        b = build(nl, STYLES[case['style']])
        ipos, opos, spos = b.s_pos()
        nI, nS = nl.n_in, len(nl.states)
        nv = nI + nS
        vals = lanes(nv, m)
        n = m ** nv
        v = nl.eval8(vals[:nI], vals[nI:])
        obs = [(f'out{j}', opos[j], o) for j, o in enumerate(nl.outs)] + [(f'st{k}', spos[k], d) for k, (_, d) in enumerate(nl.states)]
        if case['mode'] == 'batch':
            for bsz in (1, 7, 8, 9, 17):
                for start in range(0, min(n, 64), 5):
                    cnt = min(bsz, n - start)
                    sim = LogicSim(b.circuit, sims=cnt, m=m)
                    for k in range(nI): lsim.assign_codes(sim, ipos[k], vals[k][start:start + cnt])
                    for k in range(nS): lsim.assign_codes(sim, spos[k], vals[nI + k][start:start + cnt])
                    sim.s_to_c(); sim.c_prop(); sim.c_to_s()
                    for name, pos, sig in obs:
                        got = lsim.read_codes(sim, 1, pos, cnt, sim.mdim)
                        exp = v[sig][start:start + cnt]
                        if not np.all(ref.same_mod_unknown(got, exp)):
                            res.violation(_key(case, f'batch{bsz}@{start}-{name}'), case, f'batch {cnt}@{start} {name}: got {fmt(got)} expected {fmt(exp)} {nl}')
                    res.count('batch_runs')
            res.sig((case['nl'], m, 'batch'))
            return
        sim = LogicSim(b.circuit, sims=n, m=m, c_reuse=bool(case.get('reuse')))
        if case.get('reuse'):
            # signal memory is re-used between levels, and the same object first propagates another assignment (lanes rotated):
            # nothing of that first propagation may show in the second
            for k in range(nI): lsim.assign_codes(sim, ipos[k], np.roll(vals[k], 3) ^ np.uint8(m - 1 if m == 4 else 3))
            for k in range(nS): lsim.assign_codes(sim, spos[k], np.roll(vals[nI + k], 5))
            sim.s_to_c(); sim.c_prop(); sim.c_to_s()
            res.count('reuse_second_propagations')
        for k in range(nI): lsim.assign_codes(sim, ipos[k], vals[k])
        for k in range(nS): lsim.assign_codes(sim, spos[k], vals[nI + k])
        sim.s_to_c(); sim.c_prop(); sim.c_to_s()
        known_in = np.ones(n, dtype=bool)
        for a in vals: known_in &= (a != ref.UNKNOWN) & (a != ref.UNASSIGNED)
        # 2-valued reference on completions: only needed over the {0,1,X,-} sub-alphabet
        sub = np.ones(n, dtype=bool)
        for a in vals: sub &= (a < 4)
        sub_idx = np.flatnonzero(sub)
        mask2 = (1 << (1 << nv)) - 1
        var2 = [sum(1 << p for p in range(1 << nv) if (p >> k) & 1) for k in range(nv)]
        v2 = nl.eval2(var2[:nI], var2[nI:], mask2)
        nontrivial = False
        case_sig = []
        for name, pos, sig in obs:
            got = lsim.read_codes(sim, 1, pos, n, sim.mdim)
            exp = v[sig]
            ok = ref.same_mod_unknown(got, exp)
            if not np.all(ok):
                i = int(np.flatnonzero(~ok)[0])
                res.violation(_key(case, name), case,
                              f'{name} ({sig}) lane {i} inputs {fmt([a[i] for a in vals])}: got {ref.CHARS[int(got[i]) & 7]} expected {ref.CHARS[int(exp[i])]} {nl}')
            if len(np.unique(got)) > 1: nontrivial = True
            case_sig.append(got.tobytes())
            # (b) X-soundness, directly: every completion of every lane of the 4-valued sub-alphabet
            t2 = v2[sig]
            for i in sub_idx:
                g = int(got[i])
                if g not in (0, 3): continue
                unk = [k for k in range(nv) if int(vals[k][i]) in (1, 2)]
                base = sum(((int(vals[k][i]) == 3) << k) for k in range(nv) if k not in unk)
                for comp in range(1 << len(unk)):
                    p = base
                    for j, k in enumerate(unk):
                        if (comp >> j) & 1: p |= (1 << k)
                    if ((t2 >> p) & 1) != (1 if g == 3 else 0):
                        res.violation(_key(case, name + '-xsound'), case,
                                      f'{name}: inputs {fmt([a[i] for a in vals])} give {ref.CHARS[g]} but completion {p:0{nv}b} evaluates to {(t2 >> p) & 1} {nl}')
                        break
                    res.count('completions_checked')
            # (c) initial / final components
            if m == 8:
                idxs = np.flatnonzero(known_in)
                gk = got[idxs]
                bad_unknown = (gk == 1) | (gk == 2)
                if np.any(bad_unknown):
                    i = int(idxs[np.flatnonzero(bad_unknown)[0]])
                    res.violation(_key(case, name + '-unknown-from-known'), case, f'{name}: all inputs known {fmt([a[i] for a in vals])} but result unknown {nl}')
                else:
                    ini = np.zeros(len(idxs), dtype=np.int64); fin = np.zeros(len(idxs), dtype=np.int64)
                    for k in range(nv):
                        ini |= ((vals[k][idxs] >> 1) & 1).astype(np.int64) << k
                        fin |= (vals[k][idxs] & 1).astype(np.int64) << k
                    tt = np.array([(t2 >> p) & 1 for p in range(1 << nv)], dtype=np.uint8)
                    if not np.array_equal((gk >> 1) & 1, tt[ini]) or not np.array_equal(gk & 1, tt[fin]):
                        res.violation(_key(case, name + '-components'), case, f'{name}: initial/final components differ from the 2-valued reference {nl}')
                    res.count('component_lanes', len(idxs))
        if nontrivial:
            res.count('nontrivial')
            res.sig((case['nl'], m, case['style'], tuple(case_sig)))
        if len(res.samples) < 2: res.samples.append(case)
    except Exception as ex:
        res.violation(_key(case, 'exception-' + type(ex).__name__), case, traceback.format_exc()[-1500:])


def finish(agg, tier):
    need = ['completions_checked', 'component_lanes', 'batch_runs', 'nontrivial', 'reuse_second_propagations']
    missing = [k for k in need if not agg.counters.get(k)]
    if missing: raise common.HarnessError(f'vacuity guard: {missing} zero')
    return {}
