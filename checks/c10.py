"""C10 - copy, pickle, fork elimination and cell substitution preserve function.

E1: (a) circuit families x build styles x transformation sequences; (b) substitute with enumerated
implementation shapes x subsets of connected instance pins x contexts; (c) resolve_tlib_cells on
every library cell x subsets of connected pins.  Oracle: reference truth tables over ports and state
elements (own graph evaluator), port/state names and order, structural invariants of C09.
"""
import itertools
import pickle
import traceback

from mc import common, families as F, ref
from mc.netlist import NL, STYLES, build
from checks.c09 import invariants

PROP = 'C10'
LEVEL = 'exploration'
RULE = ('(a) T1/T2/T3/T4/T5 netlists x build styles x all sequences of length <= 2 over {copy, pickle, eliminate_1to1_forks}; '
        '(b) implementation shapes (all bench netlists with <= 2 gates from {AND2, INV1, BUF1} over <= 3 inputs and <= 2 outputs incl. outputs read '
        'internally, ignored inputs, inputs with many readers, no gates), each as parsed from bench text (ports are forks) and as a hand-built circuit with port cells and named signal forks (Verilog form; port line first/last in the fork), x every subset of connected instance pins x 3 contexts, the circuit pickled before the substitution and round-tripped after it; '
        'every transformation that deletes nodes is followed on the node list (deletion trace) and the circuits include ones whose last node is a state element; '
        '(c) every built-in library cell name x pin subsets (quick: all connected, each single pin open, only one output connected, seed-selected slice of all subsets; '
        'thorough: all subsets) ; distinct_nontrivial = distinct (case, truth tables) signatures with a non-constant function')
ASSUMPTIONS = ['truth tables are computed by the reference graph evaluator (mc/ref.py); unconnected instance inputs become unconnected gate pins (read 0)',
               'state elements inside an implementation are compared by next-state function and name (instance name for the designated cell, instance~name otherwise)',
               'library latch cells whose cell name does not contain "latch"/"dff" (TLAT*, DLH*, DLL*) only become state elements once resolved; their state names are compared after resolution only']
LIBS = ['GSC180', 'NANGATE', 'NANGATE_ZN', 'SAED32', 'SAED90']


# ---------------------------------------------------------------- helpers

def tt(circuit, out_names=(), var_order=None):
    """Truth tables of a kyupy circuit over its inputs and state elements.
    Returns (variable names, {observation name: int table}).  Ports named in out_names are outputs even
    when nothing drives them.  var_order: variable names fixing the order of the table variables (default: s_nodes order)."""
    snodes = circuit.s_nodes
    io = list(circuit.io_nodes)
    srcs = [n for n in io if not any(l is not None for l in n.ins) and n.name not in out_names] + [n for n in snodes[len(io):]]
    if var_order is not None:
        vname = lambda n: ('s:' if ref.is_state(n.kind) else 'i:') + n.name
        if sorted(vname(n) for n in srcs) == sorted(var_order):
            srcs = sorted(srcs, key=lambda n: var_order.index(vname(n)))
    names = [('s:' if ref.is_state(n.kind) else 'i:') + n.name for n in srcs]
    nv = len(srcs)
    npat = 1 << nv
    mask = (1 << npat) - 1
    assign = {n.index: sum(1 << p for p in range(npat) if (p >> k) & 1) for k, n in enumerate(srcs)}
    vals = ref.graph_eval(circuit, assign, lambda kind, pins: ref.gate2(kind, pins, mask), lambda v: ~v & mask, 0)
    obs = {}
    for n in io:
        if any(l is not None for l in n.ins):
            obs['o:' + n.name] = vals[n.ins[0].index]
    for n in snodes[len(io):]:
        obs['d:' + n.name] = vals[n.ins[0].index] if len(n.ins) > 0 and n.ins[0] is not None else 0   # an open data pin reads 0
    return names, obs


def snames(c): return [n.name for n in c.s_nodes]


class DeletionTrace:
    """Follows the node list of one circuit while a transformation runs and replays every deletion on a shadow list with the
    documented container semantics (the last element moves into the freed slot).  If the shadow equals the real list at
    the end, every rearrangement of the node list is accounted for by deletions; state_moved counts the deletions that put a
    state element into an earlier slot.  Used to tell the one recorded finding (known_findings.json: state elements change
    their relative order because deletion moves the last node) from any other change of the port/state order."""
    def __init__(self, c):
        import kyupy.circuit as kc
        self.kc, self.lst, self.shadow = kc, c.nodes, list(c.nodes)
        self.conform, self.state_moved, self.deletions = True, 0, 0

    def _sync(self):
        n = len(self.shadow)
        if len(self.lst) < n or any(a is not b for a, b in zip(self.shadow, self.lst)): self.conform = False
        else: self.shadow.extend(self.lst[n:])       # nodes appended since the last event

    def __enter__(self):
        self.orig = self.kc.IndexList.__delitem__
        tr = self
        def traced(lst, index):
            if lst is tr.lst:
                tr._sync()
                if not isinstance(index, int) or not 0 <= index < len(tr.shadow): tr.conform = False
                else:
                    last = tr.shadow.pop()
                    if index < len(tr.shadow):
                        tr.shadow[index] = last
                        if ref.is_state(last.kind): tr.state_moved += 1
                    tr.deletions += 1
            tr.orig(lst, index)
        self.kc.IndexList.__delitem__ = traced
        return self

    def __exit__(self, *exc):
        self.kc.IndexList.__delitem__ = self.orig
        self._sync()
        if len(self.shadow) != len(self.lst): self.conform = False
        return False

    def explains(self, before, after, n_ports):
        """the s_nodes name list changed from before to after: is it only the relative order of state elements, and is every
        rearrangement of the node list a deletion that moved the last node?"""
        return (self.conform and self.state_moved > 0 and sorted(before) == sorted(after)
                and before[:n_ports] == after[:n_ports])


FINDING_SUFFIX = '/state-order/last-node-moved-by-deletion'


TRANSFORMS = ['copy', 'pickle', 'elim']


def apply_t(c, t):
    if t == 'copy': return c.copy()
    if t == 'pickle': return pickle.loads(pickle.dumps(c))
    if t == 'elim':
        c.eliminate_1to1_forks(); return c
    raise KeyError(t)


def check_a(res, case):
    nl = NL.from_json(case['nl'])
    res.evals += 1
    key = f'C10/a/{"+".join(case["seq"])}/{common.h64(case["nl"]):016x}/s{case["style"]}'
    try:
        b = build(nl, STYLES[case['style']])
        c = b.circuit
        names0, obs0 = tt(c)
        sn0 = snames(c)
        reordered = False
        if 'elim' in case['seq'] and ref.is_state(c.nodes[-1].kind): res.count('a_elim_state_last')
        for t in case['seq']:
            before = snames(c)
            nports = len(c.io_nodes)
            with DeletionTrace(c) as tr:
                c = apply_t(c, t)
            after = snames(c)
            if after != before:
                if t == 'elim' and tr.explains(before, after, nports):
                    res.violation(f'C10/a/elim{FINDING_SUFFIX}', case, f'eliminate_1to1_forks changed the order of the state elements: {before} -> {after} '
                                  f'({tr.state_moved} deletion(s) moved a state element from the end of the node list into the freed slot) {nl}')
                    reordered = True
                else:
                    res.violation(key + '/names', case, f'port/state names changed by {t}: {before} -> {after}')
        names1, obs1 = tt(c, var_order=names0 if reordered else None)
        if names1 != names0 or obs1 != obs0:
            diff = [k for k in obs0 if obs1.get(k) != obs0[k]] + [k for k in obs1 if k not in obs0]
            res.violation(key + '/function', case, f'function changed at {diff[:3]} after {case["seq"]}: {nl}')
        for what, msg in invariants(c):
            res.violation(key + f'/invariant-{what}', case, msg)
        if 'elim' in case['seq']:
            ios = set(id(n) for n in c.io_nodes)
            left = [n.name for n in c.forks.values() if id(n) not in ios and len(n.outs) == 1]
            if left: res.violation(key + '/forks-left', case, f'1:1 forks remain after eliminate_1to1_forks: {left}')
            res.count('a_elim')
        if any(v not in (0, (1 << (1 << len(names0))) - 1) for v in obs0.values()): res.sig(('a', case['nl'], case['style'], tuple(case['seq'])))
    except Exception as ex:
        res.violation(key + f'/exception-{type(ex).__name__}', case, traceback.format_exc()[-1500:])


# ---------------------------------------------------------------- (b) implementation shapes

def impl_shapes():
    """Yields (bench text, n_in, n_out, description).  Signals a,b,c inputs; gates g0,g1; outputs among gate names."""
    kinds = {'AND2': 2, 'INV1': 1, 'BUF1': 1}
    ins = ['a', 'b', 'c']
    seen = set()
    for n_in in (1, 2, 3):
        iv = ins[:n_in]
        # no gate at all / empty implementation
        t = f'input({",".join(iv)})'
        yield t, n_in, 0
        for k0, a0 in kinds.items():
            for ops0 in itertools.product(iv, repeat=a0):
                g0 = f'y={k0}({",".join(ops0)})'
                yield f'input({",".join(iv)}) output(y) {g0}', n_in, 1
                for k1, a1 in kinds.items():
                    for ops1 in itertools.product(iv + ['y'], repeat=a1):
                        g1 = f'z={k1}({",".join(ops1)})'
                        for outs in (['z'], ['y', 'z'], ['z', 'y']):
                            if outs == ['z'] and 'y' not in ops1: continue   # y would dangle inside the implementation
                            txt = f'input({",".join(iv)}) output({",".join(outs)}) {g0} {g1}'
                            if txt in seen: continue
                            seen.add(txt)
                            yield txt, n_in, len(outs)


def parse_impl(text):
    """Own tiny parser of the bench subset used above -> (inputs, outputs, {sig: (kind, ops)})"""
    import re
    ins = re.search(r'input\(([^)]*)\)', text).group(1).split(',')
    m = re.search(r'output\(([^)]*)\)', text)
    outs = m.group(1).split(',') if m else []
    gates = {}
    for sig, kind, ops in re.findall(r'(\w+)=(\w+)\(([^)]*)\)', text):
        gates[sig] = (kind, ops.split(','))
    return [x for x in ins if x], outs, gates


def cell_port_impl(iins, iouts, igates, port_line_last):
    """The implementation in the form a Verilog module has: ports are cells of kind input/output, every signal is a
    fork; a signal that is an output and is read inside as well fans out to the port cell and to the gates."""
    from kyupy.circuit import Circuit, Node, Line
    impl = Circuit('impl')
    forks = {}
    for a in iins:
        n = Node(impl, a, 'input'); impl.io_nodes.append(n)
        forks[a] = Node(impl, a); Line(impl, n, forks[a])
    ocells = []
    for j, o in enumerate(iouts):
        n = Node(impl, f'{o}_port{j}', 'output'); impl.io_nodes.append(n); ocells.append(n)
    cells = {}
    for sig, (kind, ops) in igates.items():
        cells[sig] = Node(impl, sig, kind); forks[sig] = Node(impl, sig); Line(impl, cells[sig], forks[sig])
    def port_lines():
        for j, o in enumerate(iouts): Line(impl, forks[o], ocells[j])
    if not port_line_last: port_lines()
    for sig, (kind, ops) in igates.items():
        for k, o in enumerate(ops): Line(impl, forks[o], (cells[sig], k))
    if port_line_last: port_lines()
    return impl


def check_b(res, case):
    from kyupy import bench
    from kyupy.circuit import Circuit, Node, Line
    res.evals += 1
    text, conn_in, conn_out, ctx = case['impl'], case['conn_in'], case['conn_out'], case['ctx']
    key = f'C10/b/{text.replace(" ", "_")}/in{"".join(map(str, map(int, conn_in)))}/out{"".join(map(str, map(int, conn_out)))}/ctx{ctx}'
    try:
        iins, iouts, igates = parse_impl(text)
        ports = case.get('ports', 'fork')
        if ports == 'fork':
            impl = bench.parse(text)
        else:
            impl = cell_port_impl(iins, iouts, igates, port_line_last=(ports == 'cell_last'))
            key += '/ports-' + ports
            res.count('b_cell_ports')
        impl.eliminate_1to1_forks()
        # ---- context circuit: x_k -> (INV) -> instance pin k ; instance out j -> (XOR with x0) -> port
        c = Circuit('ctx')
        xs = [Node(c, f'x{k}', 'input') for k in range(len(iins))]
        ys = [Node(c, f'y{j}', 'output') for j in range(len(iouts))]
        extra = Node(c, 'keep', 'output')
        for n in xs + ys + [extra]: c.io_nodes.append(n)
        inst = Node(c, 'u1', 'MYCELL')
        xf = []
        for k, x in enumerate(xs):
            f = Node(c, f'x{k}')
            Line(c, x, f); xf.append(f)
        Line(c, xf[0], extra)    # keeps x0 observable and gives its fork a second reader
        for k in range(len(iins)):
            if not conn_in[k]: continue
            if ctx == 1:
                g = Node(c, f'pre{k}', 'INV1'); Line(c, xf[k], g); Line(c, g, (inst, k))
            else:
                Line(c, xf[k], (inst, k))
        for j in range(len(iouts)):
            if not conn_out[j]: continue
            if ctx == 2:
                g = Node(c, f'post{j}', 'XOR2'); Line(c, (inst, j), g); Line(c, xf[0], g); Line(c, g, ys[j])
            else:
                Line(c, (inst, j), ys[j])
        sn0 = snames(c)
        import pickle
        pickle.dumps(c)      # the circuit has been serialised once before the substitution (a checkpoint)
        c.substitute(inst, impl)
        for what, msg in invariants(c):
            res.violation(key + f'/invariant-{what}', case, msg)
        if snames(c) != sn0:
            res.violation(key + '/names', case, f'port/state names changed: {sn0} -> {snames(c)}')
            return
        names, obs = tt(c, out_names=[y.name for y in ys])
        # ---- expected function, from the text
        nv = len(xs); npat = 1 << nv; mask = (1 << npat) - 1
        if names != [f'i:x{k}' for k in range(nv)]:
            res.violation(key + '/inputs', case, f'input set changed: {names}'); return
        xv = [sum(1 << p for p in range(npat) if (p >> k) & 1) for k in range(nv)]
        pin = {}
        for k, nm in enumerate(iins):
            pin[nm] = None if not conn_in[k] else ((~xv[k] & mask) if ctx == 1 else xv[k])
        val = dict(pin)
        def ev(sig, depth=0):
            if sig in val: return val[sig]
            kind, ops = igates[sig]
            val[sig] = ref.gate2(kind, [ev(o) for o in ops], mask)
            return val[sig]
        exp = {'o:keep': xv[0]}
        for j, o in enumerate(iouts):
            if not conn_out[j]: continue
            v = ev(o)
            if v is None: v = 0      # output driven by an unconnected instance input
            exp[f'o:y{j}'] = (v ^ xv[0]) & mask if ctx == 2 else v
        if obs != exp:
            diff = sorted(set(k for k in set(obs) | set(exp) if obs.get(k) != exp.get(k)))
            res.violation(key + '/function', case, f'after substitute: {diff} got {[obs.get(k) for k in diff]} expected {[exp.get(k) for k in diff]}')
        # ... and is serialised again afterwards: the restored circuit is the substituted one
        c2 = pickle.loads(pickle.dumps(c))
        if snames(c2) != sn0 or tt(c2, out_names=[y.name for y in ys]) != (names, obs):
            res.violation(key + '/pickle-after-substitute', case, f'pickle round trip after substitute (circuit pickled before as well): names {snames(c2)}, function {tt(c2, out_names=[y.name for y in ys])[1]} instead of {obs}')
        res.sig(('b', text, tuple(conn_in), tuple(conn_out), ctx, tuple(sorted(obs.items()))))
        res.count('b_cases')
        if not all(conn_in): res.count('b_unconnected_input')
    except Exception as ex:
        res.violation(key + f'/exception-{type(ex).__name__}', case, traceback.format_exc()[-1500:])


# ---------------------------------------------------------------- (c) library cells

def check_c(res, case):
    import kyupy.techlib as tl
    from kyupy.circuit import Circuit, Node, Line
    res.evals += 1
    libname, name, conn_in, conn_out = case['lib'], case['cell'], case['conn_in'], case['conn_out']
    key = f'C10/c/{libname}/{name}/in{"".join(map(str, map(int, conn_in)))}/out{"".join(map(str, map(int, conn_out)))}'
    try:
        lib = getattr(tl, libname)
        impl, pins = lib.cells[name]
        ins = sorted([p for p, (i, o) in pins.items() if not o], key=lambda p: pins[p][0])
        outs = sorted([p for p, (i, o) in pins.items() if o], key=lambda p: pins[p][0])
        c = Circuit('ctx')
        xs = [Node(c, f'x{k}', 'input') for k in range(len(ins))]
        ys = [Node(c, f'y{j}', 'output') for j in range(len(outs))]
        xe = Node(c, 'xe', 'input')
        for n in xs + ys + [xe]: c.io_nodes.append(n)
        inst = Node(c, 'u1', name)
        other = Node(c, 'u0', 'dff')      # an unrelated state element before/after: order must be kept
        Line(c, xe, other)
        for k, x in enumerate(xs):
            f = Node(c, f'x{k}'); Line(c, x, f)
            if conn_in[k]: Line(c, f, (inst, k))
        for j in range(len(outs)):
            if conn_out[j]:
                f = Node(c, f'y{j}'); Line(c, (inst, j), f); Line(c, f, ys[j])
        last = Node(c, 'uz', 'dff')       # a second unrelated state element, the LAST node of the list
        Line(c, xe, last)
        io0 = [n.name for n in c.io_nodes]
        was_state = ref.is_state(name)
        sn0 = snames(c)
        with DeletionTrace(c) as tr:
            c.resolve_tlib_cells(lib)
        for what, msg in invariants(c):
            res.violation(key + f'/invariant-{what}', case, msg)
        if [n.name for n in c.io_nodes] != io0:
            res.violation(key + '/ports', case, f'ports changed {io0} -> {[n.name for n in c.io_nodes]}'); return
        left = [n.kind for n in c.nodes if n.kind in lib.cells]
        if left: res.violation(key + '/unresolved', case, f'library cells left after resolve: {left}')
        # ---- expected: the implementation circuit standalone, with open instance inputs reading 0
        impl_states = [n for n in impl.nodes if ref.is_state(n.kind)]
        designated = None
        impl_out_nodes = [n for n in impl.io_nodes if len(n.ins) > 0]
        if impl_out_nodes:
            d = impl_out_nodes[0].ins[0].driver
            ios = set(id(n) for n in impl.io_nodes)
            while d.kind == '__fork__' and id(d) not in ios: d = d.ins[0].driver
            designated = d
        def mapped(n): return 'u1' if n is designated else f'u1~{n.name}'
        # observability: a state element of the implementation survives iff it can reach a connected output or another kept state element; be lenient: compare only what exists
        names, obs = tt(c, out_names=[y.name for y in ys])
        var_names = [f'i:x{k}' for k in range(len(ins))] + ['i:xe', 's:u0', 's:uz'] + [f's:{mapped(n)}' for n in impl_states]
        present_states = [v for v in names if v.startswith('s:')]
        exp_states_all = ['s:u0', 's:uz'] + [f's:{mapped(n)}' for n in impl_states]
        # relative order of the ports and state elements that exist before and after
        sn1 = snames(c)
        rel0, rel1 = [x for x in sn0 if x in set(sn1)], [x for x in sn1 if x in set(sn0)]
        if rel0 != rel1:
            if tr.explains(rel0, rel1, len(io0)):
                res.violation(f'C10/c/resolve{FINDING_SUFFIX}', case, f'resolve_tlib_cells changed the order of the state elements: {sn0} -> {sn1} '
                              f'({tr.state_moved} deletion(s) moved a state element from the end of the node list into the freed slot)')
            else:
                res.violation(key + '/names', case, f'port/state order changed: {sn0} -> {sn1}')
        if tr.deletions: res.count('c_with_node_deletions')
        if [v for v in names if v.startswith('i:')] != var_names[:len(ins) + 1]:
            res.violation(key + '/inputs', case, f'inputs changed: {names}'); return
        # every state element of the implementation is a state element of the circuit afterwards, whether or not anything reads it
        if set(present_states) != set(exp_states_all):
            res.violation(key + '/states', case, f'state elements {present_states} expected {exp_states_all}'); return
        # evaluate the implementation with the variable order of the resolved circuit
        nv = len(names); npat = 1 << nv; mask = (1 << npat) - 1
        col = {nm: sum(1 << p for p in range(npat) if (p >> k) & 1) for k, nm in enumerate(names)}
        assign = {}
        impl_in_nodes = [n for n in impl.io_nodes if len(n.ins) == 0]
        def expected(open_value):
            for k, n in enumerate(impl_in_nodes):
                assign[n.index] = col[f'i:x{k}'] if conn_in[k] else open_value
            for n in impl_states:
                assign[n.index] = col.get(f's:{mapped(n)}', 0)
            gate = lambda kind, pp: ref.gate2(kind, pp, mask)
            ivals = ref.graph_eval(impl, assign, gate, lambda v: ~v & mask, 0)
            e = {'d:u0': col['i:xe'], 'd:uz': col['i:xe']}
            for j, n in enumerate(impl_out_nodes):
                if conn_out[j]:
                    v = ivals[n.ins[0].index]
                    e[f'o:y{j}'] = 0 if v is None else v
            for n in impl_states:
                if f's:{mapped(n)}' in present_states:
                    v = ivals[n.ins[0].index] if len(n.ins) > 0 and n.ins[0] is not None else 0
                    e[f'd:{mapped(n)}'] = 0 if v is None else v
            return e
        # two accepted readings of an open instance input: it reads constant 0, or the pin of the gate it feeds is unconnected
        exp = expected(0)
        exp2 = expected(None) if not all(conn_in) else exp
        if obs != exp and obs == exp2: exp = exp2
        bad = sorted(k for k in set(obs) | set(exp) if obs.get(k) != exp.get(k))
        # a removed (unobservable) state element changes the variable set; such cases were filtered by present_states
        if bad:
            res.violation(key + '/function', case, f'after resolve: {bad} got {[obs.get(k) for k in bad]} expected {[exp.get(k) for k in bad]}')
        res.sig(('c', libname, id(impl), tuple(conn_in), tuple(conn_out), tuple(sorted(obs.items()))))
        res.count('c_cases')
        if not all(conn_in) or not all(conn_out): res.count('c_open_pin')
    except Exception as ex:
        res.violation(key + f'/exception-{type(ex).__name__}', case, traceback.format_exc()[-1500:])


# ---------------------------------------------------------------- (d) several instances, incl. empty implementations

D_MENU = {
    'SAED32': [('DCAP_RVT', [], []), ('ANTENNA_RVT', ['x2'], []), ('NAND2X0_RVT', ['x0', 'x1'], ['y0']), ('FADDX1_RVT', ['x0', 'x1', 'x2'], ['y1', 'y2']), ('SHFILL2_RVT', [], [])],
    'NANGATE': [('FILLCELL_X2', [], []), ('TBUF_X1', ['x0', 'x1'], ['y0']), ('HA_X1', ['x1', 'x2'], ['y2', 'y1']), ('FILLCELL_X4', [], []), ('INV_X1', ['x2'], ['y3'])],
}
D_EXPECT = {
    'SAED32': {'o:y0': lambda a, b, c: 1 - (a & b), 'o:y1': lambda a, b, c: a ^ b ^ c, 'o:y2': lambda a, b, c: int(a + b + c >= 2)},
    'NANGATE': {'o:y0': lambda a, b, c: a, 'o:y1': lambda a, b, c: b ^ c, 'o:y2': lambda a, b, c: b & c, 'o:y3': lambda a, b, c: 1 - c},
}


def check_d(res, case):
    import kyupy.techlib as tl
    from kyupy.circuit import Circuit, Node, Line
    res.evals += 1
    libname, order = case['lib'], case['order']
    key = f'C10/d/{libname}/{"".join(map(str, order))}'
    try:
        lib = getattr(tl, libname)
        menu = D_MENU[libname]
        c = Circuit('multi')
        xs = [Node(c, f'x{k}', 'input') for k in range(3)]
        xf = []
        for k, x in enumerate(xs):
            f = Node(c, f'x{k}'); Line(c, x, f); xf.append(f)
            c.io_nodes.append(x)
        outs = sorted({o for i in order for o in menu[i][2]})
        ys = {}
        for o in outs:
            ys[o] = Node(c, o, 'output'); c.io_nodes.append(ys[o])
        for i in order:
            kind, ins, outs_ = menu[i]
            n = Node(c, f'u{i}', kind)
            for p, x in enumerate(ins): Line(c, xf[int(x[1])], (n, p))
            for p, o in enumerate(outs_): Line(c, (n, p), ys[o])
        io0 = [n.name for n in c.io_nodes]
        c.resolve_tlib_cells(lib)
        left = [n.name for n in c.nodes if n.kind in lib.cells]
        if left: res.violation(key + '/unresolved', case, f'instances left unresolved: {left}')
        for what, msg in invariants(c): res.violation(key + f'/invariant-{what}', case, msg)
        if [n.name for n in c.io_nodes] != io0: res.violation(key + '/ports', case, 'ports changed')
        if not left:
            names, obs = tt(c, out_names=list(ys))
            for o, fn in D_EXPECT[libname].items():
                if o[2:] not in ys: continue
                exp = sum(fn(p & 1, (p >> 1) & 1, (p >> 2) & 1) << p for p in range(8))
                if obs.get(o) != exp:
                    res.violation(key + f'/function-{o}', case, f'{o}: got {obs.get(o)} expected {exp}')
        res.count('d_cases')
        res.sig(('d', libname, tuple(order)))
    except Exception as ex:
        res.violation(key + f'/exception-{type(ex).__name__}', case, traceback.format_exc()[-1500:])


# ---------------------------------------------------------------- driver

def tasks(tier, seed):
    t = []
    for sl in range(8): t.append(('a', 't1', sl, 8, tier, seed))
    for sl in range(8): t.append(('a', 't2', sl, 8, tier, seed))
    t.append(('a', 't4', 0, 1, tier, seed)); t.append(('a', 't5', 0, 1, tier, seed))
    for sk, gk in F.t3_shards(1, 1, F.T3_KINDS_QUICK): t.append(('a', ('t3', 2, sk, gk), 0, 1, tier, seed))
    if tier == 'thorough':
        for sk, gk in F.t3_shards(1, 2, F.T3_KINDS_QUICK): t.append(('a', ('t3', 2, sk, gk), 0, 1, tier, seed))
    for sl in range(16): t.append(('b', sl, 16, tier, seed))
    for lib in LIBS:
        for sl in range(4): t.append(('c', lib, sl, 4, tier, seed))
    for lib in D_MENU: t.append(('d', lib, tier, seed))
    t.append(('e', tier, seed))
    if tier == 'thorough': t = F.slice_t3_tasks(t, 1000)
    return t


def seqs():
    s = [[t] for t in TRANSFORMS]
    s += [[a, b] for a in TRANSFORMS for b in TRANSFORMS]
    return s


def run_task(task):
    res = common.Result()
    tier, seed = task[-2], task[-1]
    if task[0] == 'a':
        fam, sl, nsl = task[1], task[2], task[3]
        if fam == 't1': g = F.take_slice(F.t1(), nsl, sl)
        elif fam == 't2': g = F.take_slice(F.t2(), nsl, sl)
        elif fam == 't4': g = F.t4()
        elif fam == 't5': g = F.t5()
        else: g = F.t3_shard(fam[1], fam[2], fam[3], extra_tap=True)
        allseq = seqs()
        for idx, nl in enumerate(g):
            if tier == 'quick' and fam in ('t1', 't2') and idx % 5 != seed % 5: continue
            styles = range(len(STYLES)) if tier == 'thorough' else ([idx % len(STYLES), (idx + 3) % len(STYLES)] if fam in ('t4', 't5') else [idx % len(STYLES)])
            for si in styles:
                for sq in (allseq if tier == 'thorough' or idx % 3 == 0 else allseq[:3] + [allseq[3 + (idx % 9)]]):
                    check_a(res, {'kind': 'a', 'nl': nl.to_json(), 'style': si, 'seq': sq})
        if not res.samples: res.samples.append({'kind': 'a', 'family': str(fam)})
    elif task[0] == 'b':
        sl, nsl = task[1], task[2]
        for i, (text, n_in, n_out) in enumerate(impl_shapes()):
            if i % nsl != sl: continue
            for conn_in in itertools.product((True, False), repeat=n_in):
                for conn_out in itertools.product((True, False), repeat=n_out):
                    for ctx in (0, 1, 2):
                        check_b(res, {'kind': 'b', 'impl': text, 'conn_in': list(conn_in), 'conn_out': list(conn_out), 'ctx': ctx})
                        for pk, ports in enumerate(('cell', 'cell_last')):
                            if tier == 'thorough' or (i + ctx + pk) % 3 == 0:
                                check_b(res, {'kind': 'b', 'impl': text, 'conn_in': list(conn_in), 'conn_out': list(conn_out), 'ctx': ctx, 'ports': ports})
        if not res.samples: res.samples.append({'kind': 'b', 'impl': 'input(a,b) output(y,z) y=AND2(a,b) z=INV1(y)', 'conn_in': [True, False], 'conn_out': [False, True], 'ctx': 2})
    elif task[0] == 'e':
        for perm in itertools.permutations((0, 1)):
            for conn_out in ((True, True), (True, False), (False, True)):
                for inner in ('dff', 'latch2'):
                    check_e(res, {'kind': 'e', 'perm': list(perm), 'conn_out': list(conn_out), 'inner': inner})
    elif task[0] == 'd':
        for k in (2, 3, 4, 5):
            for order in itertools.permutations(range(5), k):
                check_d(res, {'kind': 'd', 'lib': task[1], 'order': list(order)})
        res.samples.append({'kind': 'd', 'lib': task[1], 'order': [0, 3, 2]})
    else:
        import kyupy.techlib as tl
        libname, sl, nsl = task[1], task[2], task[3]
        lib = getattr(tl, libname)
        seen_impl = {}
        for i, name in enumerate(sorted(lib.cells)):
            if i % nsl != sl: continue
            impl, pins = lib.cells[name]
            n_in = sum(1 for p, (k, o) in pins.items() if not o)
            n_out = sum(1 for p, (k, o) in pins.items() if o)
            first_of_impl = id(impl) not in seen_impl
            seen_impl[id(impl)] = True
            subsets = []
            full = ([True] * n_in, [True] * n_out)
            subsets.append(full)
            if first_of_impl or tier == 'thorough':
                for k in range(n_in):
                    ci = [True] * n_in; ci[k] = False; subsets.append((ci, [True] * n_out))
                for j in range(n_out):
                    co = [False] * n_out; co[j] = True; subsets.append(([True] * n_in, co))
                    co2 = [True] * n_out; co2[j] = False; subsets.append(([True] * n_in, co2))
                subsets.append(([False] * n_in, [True] * n_out))
                allsub = [(list(a), list(b)) for a in itertools.product((True, False), repeat=n_in) for b in itertools.product((True, False), repeat=n_out)]
                if tier == 'thorough': subsets += allsub
                else: subsets += allsub[seed % 11::11]
            done = set()
            for ci, co in subsets:
                k = (tuple(ci), tuple(co))
                if k in done: continue
                done.add(k)
                check_c(res, {'kind': 'c', 'lib': libname, 'cell': name, 'conn_in': list(ci), 'conn_out': list(co)})
        if not res.samples: res.samples.append({'kind': 'c', 'lib': libname, 'cell': sorted(lib.cells)[0]})
    return res


def replay(case):
    common.setup_kyupy()
    res = common.Result()
    {'a': check_a, 'b': check_b, 'c': check_c, 'd': check_d, 'e': check_e}[case['kind']](res, case)
    return res.violations


def check_e(res, case):
    """An implementation whose output ports are driven DIRECTLY by the pins of a multi-output node (flip-flop Q = pin 0, QN = pin 1), with
    the ports listed in another order than the pins and/or only the higher pin used."""
    from kyupy.circuit import Circuit, Node, Line
    res.evals += 1
    perm, conn_out, inner = case['perm'], case['conn_out'], case['inner']
    key = f'C10/e/{inner}/perm{"".join(map(str, perm))}/out{"".join(str(int(x)) for x in conn_out)}'
    try:
        impl = Circuit('impl')
        a = Node(impl, 'a', 'input'); ck = Node(impl, 'ck', 'input')
        outs = [Node(impl, 'p0', 'output'), Node(impl, 'p1', 'output')]
        for n in [a, ck] + outs: impl.io_nodes.append(n)
        ff = Node(impl, 'ff', 'DFF' if inner == 'dff' else 'DFFX1')
        Line(impl, a, (ff, 0)); Line(impl, ck, (ff, 1))
        for j, o in enumerate(outs): Line(impl, (ff, perm[j]), o)      # port j is driven by pin perm[j] of the flip-flop
        c = Circuit('ctx')
        x = Node(c, 'x', 'input'); k = Node(c, 'k', 'input')
        ys = [Node(c, 'y0', 'output'), Node(c, 'y1', 'output')]
        for n in [x, k] + ys: c.io_nodes.append(n)
        u = Node(c, 'u', 'MYFF')
        Line(c, x, (u, 0)); Line(c, k, (u, 1))
        for j, y in enumerate(ys):
            if conn_out[j]: Line(c, (u, j), y)
        sn0 = snames(c)
        c.substitute(u, impl)
        for what, msg in invariants(c):
            res.violation(key + f'/invariant-{what}', case, msg)
        names, obs = tt(c, out_names=['y0', 'y1'])
        states = [v for v in names if v.startswith('s:')]
        if len(states) != 1 or [v for v in names if v.startswith('i:')] != ['i:x', 'i:k'] or snames(c)[:4] != sn0[:4]:
            res.violation(key + '/names', case, f'after substitute: variables {names}, s_nodes {snames(c)}'); return
        nv = len(names); npat = 1 << nv; mask = (1 << npat) - 1
        col = {nm: sum(1 << p for p in range(npat) if (p >> i) & 1) for i, nm in enumerate(names)}
        st = col[states[0]]
        exp = {'d:' + states[0][2:]: col['i:x']}
        for j in range(2):
            if conn_out[j]: exp[f'o:y{j}'] = st if perm[j] == 0 else (~st & mask)
        if obs != exp:
            bad = sorted(kk for kk in set(obs) | set(exp) if obs.get(kk) != exp.get(kk))
            res.violation(key + '/function', case, f'after substitute: {bad} got {[obs.get(b) for b in bad]} expected {[exp.get(b) for b in bad]} (port j driven by flip-flop pin {perm})')
        res.count('e_cases')
        res.sig(('e', inner, tuple(perm), tuple(conn_out)))
    except Exception as ex:
        res.violation(key + f'/exception-{type(ex).__name__}', case, traceback.format_exc()[-1500:])


def finish(agg, tier):
    need = ['e_cases', 'a_elim', 'a_elim_state_last', 'b_cases', 'b_cell_ports', 'b_unconnected_input', 'c_cases', 'c_open_pin', 'c_with_node_deletions', 'd_cases']
    missing = [k for k in need if not agg.counters.get(k)]
    if missing: raise common.HarnessError(f'vacuity guard: {missing} zero')
    return {}
