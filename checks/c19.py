"""C19 - built-in library cells have consistent pins and datasheet Boolean functions.

Complete enumeration: every cell name of the five libraries x every input combination.
"""
import ast
import itertools
import os
import re
import traceback

from mc import common, ref

PROP = 'C19'
LEVEL = 'exploration'
RULE = ('every cell name of GSC180, NANGATE, NANGATE_ZN, SAED32, SAED90 (names re-derived by an independent brace expansion '
        'of the library source text) x pin-table checks; every purely combinational cell of the listed families x all 2^inputs '
        'input combinations vs. a datasheet function table in the harness; distinct_nontrivial = distinct (library, implementation '
        'circuit, output pin, truth table) signatures')
ASSUMPTIONS = ['datasheet functions are encoded in checks/c19.py from the vendor naming conventions (AOI21_X*: ZN=!(A|B1&B2), AO221X*: Y=A1&A2|A3&A4|A5, MUX41 by (S1,S0), FA: S=A^B^CI CO=maj, ...)',
               'families not listed in the property statement (tri-state, isolation, decoder, clock gate, tie, filler, header/footer, sequential) get the pin-table checks only',
               'implementation circuits are evaluated by the reference graph evaluator (mc/ref.py), not by the simulator']
LIBS = ['GSC180', 'NANGATE', 'NANGATE_ZN', 'SAED32', 'SAED90']


def tasks(tier, seed):
    return [('lib', l) for l in LIBS] + [('cross', seed)]


# ---- independent re-derivation of the cell names from the library source text

def lib_sources():
    path = os.path.join(common.KYUPY_SRC, 'kyupy', 'techlib.py')
    tree = ast.parse(open(path).read())
    env = {}
    out = {}
    for node in tree.body:
        if isinstance(node, ast.Assign) and len(node.targets) == 1 and isinstance(node.targets[0], ast.Name):
            name = node.targets[0].id
            v = node.value
            if isinstance(v, ast.Call) and getattr(v.func, 'id', None) == 'TechLib':
                out[name] = eval(compile(ast.Expression(v.args[0]), path, 'eval'), {'__builtins__': {}}, dict(env))
            else:
                try:
                    env[name] = eval(compile(ast.Expression(v), path, 'eval'), {'__builtins__': {}}, dict(env))
                except Exception:
                    pass
    return out


def expand(name):
    m = re.search(r'\{([^{}]*)\}', name)
    if not m: return [name]
    r = []
    for alt in m.group(1).split(','):
        r += expand(name[:m.start()] + alt + name[m.end():])
    return r


def source_cells(src):
    """[(expanded names, input pin list, output pin list)] per definition in the source text."""
    cells = []
    for stmt in src.split(';'):
        toks = stmt.split()
        if not toks: continue
        body = stmt[stmt.index(toks[0]) + len(toks[0]):]
        ins, outs = [], []
        for kw, lst in re.findall(r'\b(input|output|INPUT|OUTPUT)\s*\(([^)]*)\)', body):
            names = [x.strip() for x in lst.split(',') if x.strip()]
            (ins if kw.lower() == 'input' else outs).extend(names)
        cells.append((expand(toks[0]), ins, outs))
    return cells


# ---- datasheet functions

def AND(*x): return int(all(x))
def OR(*x): return int(any(x))
def XOR(*x): return sum(x) & 1
def N(x): return 1 - x
def MAJ(a, b, c): return int(a + b + c >= 2)


def datasheet(lib, name):
    """Returns {output pin: function(dict pin->0/1)} or None if the family is not covered by the statement."""
    base = re.sub(r'_(RVT|LVT|HVT)$', '', name)
    g = lambda *pins: (lambda v: [v[p] for p in pins])
    def simple(opin, fn, ipins): return {opin: (lambda v: fn(*[v[p] for p in ipins]))}
    if lib == 'GSC180':
        m = re.fullmatch(r'(CLKBUF|BUF)X\d+', base)
        if m: return simple('Y', lambda a: a, ['A'])
        if re.fullmatch(r'INVX\d+', base): return simple('Y', N, ['A'])
        m = re.fullmatch(r'(AND|NAND|OR|NOR|XOR)(\d)X\d+', base)
        if m:
            pins = list('ABCD')[:int(m.group(2))]
            fn = {'AND': AND, 'NAND': lambda *x: N(AND(*x)), 'OR': OR, 'NOR': lambda *x: N(OR(*x)), 'XOR': XOR}[m.group(1)]
            return simple('Y', fn, pins)
        if base == 'MX2X1': return {'Y': lambda v: v['B'] if v['S0'] else v['A']}
        if base == 'AOI21X1': return {'Y': lambda v: N(OR(AND(v['A0'], v['A1']), v['B0']))}
        if base == 'AOI22X1': return {'Y': lambda v: N(OR(AND(v['A0'], v['A1']), AND(v['B0'], v['B1'])))}
        if base == 'OAI21X1': return {'Y': lambda v: N(AND(OR(v['A0'], v['A1']), v['B0']))}
        if base == 'OAI22X1': return {'Y': lambda v: N(AND(OR(v['A0'], v['A1']), OR(v['B0'], v['B1'])))}
        if base == 'OAI33X1': return {'Y': lambda v: N(AND(OR(v['A0'], v['A1'], v['A2']), OR(v['B0'], v['B1'], v['B2'])))}
        if base == 'ADDFX1': return {'S': lambda v: XOR(v['A'], v['B'], v['CI']), 'CO': lambda v: MAJ(v['A'], v['B'], v['CI'])}
        if base == 'ADDHX1': return {'S': lambda v: XOR(v['A'], v['B']), 'CO': lambda v: AND(v['A'], v['B'])}
        return None
    if lib in ('NANGATE', 'NANGATE_ZN'):
        if re.fullmatch(r'(CLKBUF|BUF)_X\d+', base): return simple('Z', lambda a: a, ['A'])
        if re.fullmatch(r'INV_X\d+', base): return simple('ZN', N, ['I' if lib == 'NANGATE' else 'A'])
        m = re.fullmatch(r'(AND|NAND|OR|NOR|XOR|XNOR)(\d)_X\d+', base)
        if m:
            fam, n = m.group(1), int(m.group(2))
            pins = [f'A{i + 1}' for i in range(n)]
            if lib == 'NANGATE_ZN' and fam in ('XOR', 'XNOR'): pins = ['A', 'B']
            fn = {'AND': AND, 'NAND': lambda *x: N(AND(*x)), 'OR': OR, 'NOR': lambda *x: N(OR(*x)), 'XOR': XOR, 'XNOR': lambda *x: N(XOR(*x))}[fam]
            if fam in ('NAND', 'NOR', 'XNOR'): opin = 'ZN'
            elif fam == 'XOR': opin = 'Z'
            else: opin = 'Z' if lib == 'NANGATE' else 'ZN'
            return simple(opin, fn, pins)
        if re.fullmatch(r'AOI21_X\d+', base): return {'ZN': lambda v: N(OR(v['A'], AND(v['B1'], v['B2'])))}
        if re.fullmatch(r'OAI21_X\d+', base): return {'ZN': lambda v: N(AND(v['A'], OR(v['B1'], v['B2'])))}
        if re.fullmatch(r'AOI22_X\d+', base): return {'ZN': lambda v: N(OR(AND(v['A1'], v['A2']), AND(v['B1'], v['B2'])))}
        if re.fullmatch(r'OAI22_X\d+', base): return {'ZN': lambda v: N(AND(OR(v['A1'], v['A2']), OR(v['B1'], v['B2'])))}
        if re.fullmatch(r'AOI211_X\d+', base): return {'ZN': lambda v: N(OR(AND(v['C1'], v['C2']), v['A'], v['B']))}
        if re.fullmatch(r'OAI211_X\d+', base): return {'ZN': lambda v: N(AND(OR(v['C1'], v['C2']), v['A'], v['B']))}
        if re.fullmatch(r'AOI221_X\d+', base): return {'ZN': lambda v: N(OR(AND(v['B1'], v['B2']), AND(v['C1'], v['C2']), v['A']))}
        if re.fullmatch(r'OAI221_X\d+', base): return {'ZN': lambda v: N(AND(OR(v['B1'], v['B2']), OR(v['C1'], v['C2']), v['A']))}
        if re.fullmatch(r'AOI222_X\d+', base): return {'ZN': lambda v: N(OR(AND(v['A1'], v['A2']), AND(v['B1'], v['B2']), AND(v['C1'], v['C2'])))}
        if re.fullmatch(r'OAI222_X\d+', base): return {'ZN': lambda v: N(AND(OR(v['A1'], v['A2']), OR(v['B1'], v['B2']), OR(v['C1'], v['C2'])))}
        if base == 'OAI33_X1': return {'ZN': lambda v: N(AND(OR(v['A1'], v['A2'], v['A3']), OR(v['B1'], v['B2'], v['B3'])))}
        if re.fullmatch(r'MUX2_X\d+', base): return {'Z': lambda v: v['B'] if v['S'] else v['A']}
        if base == 'HA_X1': return {'S': lambda v: XOR(v['A'], v['B']), 'CO': lambda v: AND(v['A'], v['B'])}
        if base == 'FA_X1': return {'S': lambda v: XOR(v['A'], v['B'], v['CI']), 'CO': lambda v: MAJ(v['A'], v['B'], v['CI'])}
        return None
    # SAED32 / SAED90
    s32 = lib == 'SAED32'
    def ip(i): return f'A{i}' if s32 else f'IN{i}'
    one_in = 'A' if s32 else 'INP'
    if re.fullmatch(r'(NBUFFX|AOBUFX)\d+|DELLN\dX2', base): return simple('Y' if s32 else 'Z', lambda a: a, [one_in])
    if re.fullmatch(r'(INVX|AOINVX|IBUFFX)\d+', base): return simple('Y' if s32 else 'ZN', N, [one_in])
    m = re.fullmatch(r'(AND|NAND|OR|NOR|XOR|XNOR)(\d)X\d+', base)
    if m:
        fam, n = m.group(1), int(m.group(2))
        fn = {'AND': AND, 'NAND': lambda *x: N(AND(*x)), 'OR': OR, 'NOR': lambda *x: N(OR(*x)), 'XOR': XOR, 'XNOR': lambda *x: N(XOR(*x))}[fam]
        opin = 'Y' if s32 else ('QN' if fam in ('NAND', 'NOR') else 'Q')
        return simple(opin, fn, [ip(i + 1) for i in range(n)])
    m = re.fullmatch(r'(AO|OA|AOI|OAI)(21|22|221|222)X\d+', base)
    if m:
        fam, shape = m.group(1), m.group(2)
        inner, outer = (AND, OR) if fam.startswith('AO') else (OR, AND)
        inv = fam.endswith('I')
        opin = 'Y' if s32 else ('QN' if inv else 'Q')
        groups = {'21': [[1, 2], [3]], '22': [[1, 2], [3, 4]], '221': [[1, 2], [3, 4], [5]], '222': [[1, 2], [3, 4], [5, 6]]}[shape]
        def fn(v, groups=groups, inner=inner, outer=outer, inv=inv):
            r = outer(*[inner(*[v[ip(i)] for i in grp]) for grp in groups])
            return N(r) if inv else r
        return {opin: fn}
    if re.fullmatch(r'MUX21X\d+', base):
        s = 'S0' if s32 else 'S'
        return {('Y' if s32 else 'Q'): lambda v: v[ip(2)] if v[s] else v[ip(1)]}
    if re.fullmatch(r'MUX41X\d+', base):
        return {('Y' if s32 else 'Q'): lambda v: v[ip(1 + v['S0'] + 2 * v['S1'])]}
    if re.fullmatch(r'FADDX\d+', base): return {'S': lambda v: XOR(v['A'], v['B'], v['CI']), 'CO': lambda v: MAJ(v['A'], v['B'], v['CI'])}
    if re.fullmatch(r'HADDX\d+', base): return {'SO': lambda v: XOR(v['A0'], v['B0']), 'C1': lambda v: AND(v['A0'], v['B0'])}
    return None


def run_cross(res, task):
    """all libraries in ONE process, in two orders: the accessors must agree with every library's own pin table
    regardless of which library was asked before (state shared between TechLib objects would show here)"""
    import kyupy.techlib as tl
    rot = task[1] % len(LIBS)
    orders = [LIBS[rot:] + LIBS[:rot], (LIBS[rot:] + LIBS[:rot])[::-1]]
    for oi, order in enumerate(orders):
        for libname in order:
            lib = getattr(tl, libname)
            for name in sorted(lib.cells):
                c, pins = lib.cells[name]
                for p, (idx, is_out) in pins.items():
                    res.evals += 1
                    try:
                        got = (lib.pin_index(name, p), lib.pin_is_output(name, p))
                    except Exception as ex:
                        got = repr(ex)
                    if got != (idx, is_out):
                        res.violation(f'C19/cross/{libname}/{name}/pin={p}', {'task': list(task)}, f'{libname}.pin_index/pin_is_output({name}, {p}) = {got}, pin table says {(idx, is_out)} (libraries asked in order {order})')
            # a pin name of another library's cell of the same name must be rejected
            for other in LIBS:
                if other == libname: continue
                ol = getattr(tl, other)
                for name in sorted(set(lib.cells) & set(ol.cells)):
                    for p in set(ol.cells[name][1]) - set(lib.cells[name][1]):
                        res.evals += 1
                        try:
                            r = lib.pin_index(name, p)
                            res.violation(f'C19/cross/{libname}/{name}/foreign-pin={p}', {'task': list(task)}, f'{libname}.pin_index({name}, {p}) returned {r} although {libname}.{name} has no pin {p} (it is a pin of {other}.{name})')
                        except (AssertionError, KeyError):
                            pass
        res.sig(('cross', tuple(order)))
    res.count('cross_orders', len(orders))
    res.samples.append({'kind': 'cross', 'order': orders[0]})


def run_task(task):
    import kyupy.techlib as tl
    res = common.Result()
    if task[0] == 'cross':
        try: run_cross(res, task)
        except Exception as ex:
            res.violation(f'C19/cross/exception-{type(ex).__name__}', {'task': list(task)}, traceback.format_exc()[-1500:])
        return res
    libname = task[1]
    try:
        lib = getattr(tl, libname)
        src = lib_sources()[libname]
        expected = source_cells(src)
        exp_names = [n for names, _, _ in expected for n in names]
        missing = sorted(set(exp_names) - set(lib.cells))
        extra = sorted(set(lib.cells) - set(exp_names))
        for n in missing[:5]: res.violation(f'C19/{libname}/{n}/missing', {'task': list(task)}, f'name {n} does not expand to a definition')
        for n in extra[:5]: res.violation(f'C19/{libname}/{n}/unexpected', {'task': list(task)}, f'cell {n} not derivable from the library text')
        res.count('names', len(exp_names))
        for names, ins, outs in expected:
            for name in names:
                if name not in lib.cells: continue
                check_cell(res, task, libname, lib, name, ins, outs)
    except Exception as ex:
        res.violation(f'C19/{libname}/exception-{type(ex).__name__}', {'task': list(task)}, traceback.format_exc()[-1500:])
    return res


def replay(case):
    common.setup_kyupy()
    return run_task(tuple(case['task'])).violations


def check_cell(res, task, libname, lib, name, ins, outs):
    c, pins = lib.cells[name]
    res.evals += 1
    key = f'C19/{libname}/{name}'
    # pin table: each declared pin once, numbered in declaration order, directions right
    if len(set(ins + outs)) != len(ins + outs):
        res.violation(key + '/duplicate-pin', {'task': list(task)}, f'pin declared twice: {ins + outs}')
    if set(pins) != set(ins + outs):
        res.violation(key + '/pin-set', {'task': list(task)}, f'pin table {sorted(pins)} vs declared {ins + outs}')
        return
    for i, p in enumerate(ins):
        if pins[p] != (i, False) or lib.pin_index(name, p) != i or lib.pin_is_output(name, p):
            res.violation(key + f'/pin={p}', {'task': list(task)}, f'input pin {p} is {pins[p]}, expected ({i}, False)')
    for i, p in enumerate(outs):
        if pins[p] != (i, True) or lib.pin_index(name, p) != i or not lib.pin_is_output(name, p):
            res.violation(key + f'/pin={p}', {'task': list(task)}, f'output pin {p} is {pins[p]}, expected ({i}, True)')
    # agreement with the implementation circuit's ports (this is what substitute() relies on)
    impl_in = [n.name for n in c.io_nodes if len(n.ins) == 0]
    impl_out = [n.name for n in c.io_nodes if len(n.ins) > 0]
    if impl_in != ins or impl_out != outs:
        res.violation(key + '/impl-ports', {'task': list(task)}, f'implementation ports in={impl_in} out={impl_out} vs declared in={ins} out={outs}')
        return
    fns = datasheet(libname, name)
    if fns is None:
        res.count('pins_only')
        return
    res.count('function_checked')
    if set(fns) != set(outs):
        res.violation(key + '/outputs', {'task': list(task)}, f'datasheet outputs {sorted(fns)} vs declared {outs}')
        return
    n = len(ins)
    npat = 1 << n
    mask = (1 << npat) - 1
    var = {p: sum(1 << q for q in range(npat) if (q >> k) & 1) for k, p in enumerate(ins)}
    assign = {nd.index: var[nd.name] for nd in c.io_nodes if nd.name in var}
    vals = ref.graph_eval(c, assign, lambda kind, pp: ref.gate2(kind, pp, mask), lambda v: ~v & mask, 0)
    for o in outs:
        node = next(nd for nd in c.io_nodes if nd.name == o)
        got = vals[node.ins[0].index]
        exp = 0
        for q in range(npat):
            v = {p: (q >> k) & 1 for k, p in enumerate(ins)}
            if fns[o](v): exp |= 1 << q
        res.evals += npat
        if got != exp:
            res.violation(key + f'/pin={o}', {'task': list(task)}, f'{name}.{o}: truth table {got:0{npat}b} expected {exp:0{npat}b} (inputs {ins}, LSB = all zero)')
        res.sig((libname, id(c), o, got))
    if len(res.samples) < 2:
        res.samples.append({'lib': libname, 'cell': name, 'inputs': ins, 'outputs': outs})


def finish(agg, tier):
    if agg.counters.get('names', 0) < 900 or agg.counters.get('function_checked', 0) < 500 or not agg.counters.get('cross_orders'):
        raise common.HarnessError(f'vacuity guard: names={agg.counters.get("names")} function_checked={agg.counters.get("function_checked")}')
    return {}
