"""Shared enumeration and execution for the waveform-simulator properties (C03, C04, C05, C06, C07, C13).

Seam W1: the kernel function wave_eval_cpu on a hand-built buffer (as the repository's own
test_nand_delays does).  Seam W2: WaveSim / WaveSimCuda on circuits of the families.
"""
import itertools

import numpy as np

from mc import families as F, ref, wsim
from mc.netlist import NL, STYLES, build
from mc.wsim import TMAX, TMIN

# ------------------------------------------------------------------ W1 kernel seam

def lut_of(kind):
    """LUT constant of a primitive, computed from the reference Boolean function (independent of sim.py's table)."""
    fam, ops = ref.effective_operands(kind, ['a', 'b', 'c', 'd'][:F.ARITY[kind]])
    lut = 0
    for inputs in range(16):
        v = [(inputs >> k) & 1 for k in range(4)]
        if ref.f2(fam, v[:len(ops)], 1): lut |= (1 << inputs)
    return lut


def w1_tasks(tier, seed):
    t = []
    for kind in ref.PRIMITIVES_33:
        a = F.ARITY[kind]
        T = {1: 4, 2: 4, 3: 3, 4: 2}[a]
        if tier == 'quick' and a == 2: T = 3
        if tier == 'quick' and a == 3: T = 2
        caps = (4, 8, 16) if a <= 2 else (4, 8)
        t.append(('w1', kind, T, caps, tier, seed))
    return t


def w1_delay_combos(arity, tier, idx):
    """delay table names per input"""
    base = [('u',) * arity, ('z',) * arity, ('w',) * arity, ('o',) * arity, ('i',) * arity, ('d',) * arity]
    if arity >= 2:
        base += [('d', 'e', 'u', 'z')[:arity], ('z', 'd', 'i', 'o')[:arity], ('q', 'u', 'w', 'o')[:arity]]
    return base


class Kernel:
    """One-gate buffer: operands 0..3, result slot 4, zero slot 5."""
    def __init__(self, cap_in=8):
        from kyupy import wave_sim
        self.eval = wave_sim.wave_eval_cpu
        self.cap_in = cap_in

    def run(self, lut, arity, waves, dnames, cap_out, a_ctrl=(-1, 0, 0)):
        """waves: list of (init, times) per connected operand; returns (decoded output, nrise, nfall, buffer)"""
        cin = self.cap_in
        nslots = 6
        c_locs = np.array([0, cin, 2 * cin, 3 * cin, 4 * cin, 4 * cin + 16], dtype=np.int32)
        c_caps = np.array([cin, cin, cin, cin, cap_out, cin], dtype=np.int32)
        c = np.full((4 * cin + 16 + cin, 1), TMAX, dtype=np.float32)
        for k, (init, times) in enumerate(waves):
            e = wsim.encode(init, times)
            c[c_locs[k]:c_locs[k] + len(e), 0] = e
        idx = [k if k < arity else 5 for k in range(4)]
        op = np.array([lut, 4, idx[0], idx[1], idx[2], idx[3], a_ctrl[0], a_ctrl[1], a_ctrl[2]], dtype=np.int32)
        delays = np.zeros((1, nslots, 2, 2))
        for k in range(arity):
            delays[0, k] = wsim.DELAY_TABLES[dnames[k]]
        simctl = np.asarray([0, 0], dtype=np.int32)
        nrise, nfall = self.eval(op, c, c_locs, c_caps, 0, delays, simctl)
        return wsim.decode(c, int(c_locs[4]), cap_out, 0), int(nrise), int(nfall), c, delays


# ------------------------------------------------------------------ W2 simulator seam

def w2_tasks(tier, seed, heavy=1):
    """heavy scales the number of circuits (1 = default)."""
    t = []
    nsl = 16
    for sl in range(nsl): t.append(('w2', 't1', sl, nsl, tier, seed))
    for sl in range(nsl): t.append(('w2', 't2', sl, nsl, tier, seed))
    for sl in range(4): t.append(('w2', 't4', sl, 4, tier, seed))
    for sl in range(4): t.append(('w2', 't5', sl, 4, tier, seed))
    for sk, gk in F.t3_shards(1, 1, F.T3_KINDS_QUICK): t.append(('w2', ('t3', 1, sk, gk), 0, 1, tier, seed))
    t.append(('w2', 'wide', 0, 1, tier, seed))
    for sl in range(12): t.append(("w2", "big", sl, 12, tier, seed))
    if tier == 'thorough':
        for sk, gk in F.t3_shards(1, 2, ['NAND2', 'XOR2', 'MUX21']): t.append(('w2', ('t3', 1, sk, gk), 0, 1, tier, seed))
        for sk, gk in F.t3_shards(0, 2, F.T3_KINDS_QUICK): t.append(('w2', ('t3', 2, sk, gk), 0, 1, tier, seed))
        t = F.slice_t3_tasks(t, int(600 / heavy))
    return t


def t1_wave():
    """single gates for the simulator seam: per kind a few operand tuples over 3 inputs"""
    for kind in ref.PRIMITIVES_33 + ['and', 'nor', 'NBUFFX2', '__const1__', 'tiel']:
        tups = list(F.operand_tuples(kind, ['i0', 'i1', 'i2']))
        a = len(tups[0])
        pick = {tups[0], tups[len(tups) // 2], tups[-1]}
        pick.add(tuple(f'i{j % 3}' for j in range(a)))
        if a >= 2:
            pick.add(tuple(f'i{(j + 1) % 2}' for j in range(a)))
            pick.add(tuple([None] + [f'i{j % 3}' for j in range(1, a)]))
        for ops in sorted(pick, key=repr):
            if len(ops) != a: continue
            if ref.family(kind)[1] == 'var' and a >= 3 and ops[-1] is None: continue
            yield NL(3, [], [(kind, ops)], ['g0'])


def t2_wave():
    """two-gate compositions over 3 shared inputs"""
    kinds = ref.PRIMITIVES_33
    for k0 in kinds:
        a0 = F.ARITY[k0]
        for k1 in kinds:
            a1 = F.ARITY[k1]
            for p in range(a1):
                ops0 = tuple(f'i{j % 3}' for j in range(a0))
                ops1 = tuple('g0' if q == p else f'i{(q + p + 1) % 3}' for q in range(a1))
                yield NL(3, [], [(k0, ops0), (k1, ops1)], ['g1'])


def wide():
    """more than 16 ops in one level and more than 16 ports (crosses the 32x16 thread-block boundaries of the GPU path)"""
    kinds = ['NAND2', 'XOR2', 'NOR2', 'AO21', 'MUX21', 'INV1']
    gates = [(kinds[k % len(kinds)], tuple(f'i{(k + j) % 3}' for j in range(F.ARITY[kinds[k % len(kinds)]]))) for k in range(18)]
    yield NL(3, [], gates, [f'g{k}' for k in range(18)])
    gates2 = gates + [('XOR2', (f'g{k}', f'g{k + 1}')) for k in range(17)]
    yield NL(3, [('dff', 'g20')], gates2, [f'g{18 + k}' for k in range(17)])


def w2_circuits(task):
    fam, sl, nsl, tier, seed = task[1], task[2], task[3], task[4], task[5]
    if fam == 'wide': return wide()
    if fam == 'big': return F.take_slice(F.big(), nsl, sl)
    if fam == 't1': g = t1_wave()
    elif fam == 't2':
        g = t2_wave()
        if tier == 'quick': g = F.take_slice(g, 12, seed % 12)
    elif fam == 't4':
        g = (nl for nl in F.t4() if nl.n_in + len(nl.states) <= 3 or tier == 'thorough')
        if tier == 'quick': g = F.take_slice(g, 3, seed % 3)
    elif fam == 't5':
        g = F.t5()
        if tier == 'quick': g = F.take_slice(g, 6, seed % 6)
    else:
        g = F.t3_shard(fam[1], fam[2], fam[3], extra_tap=True)
        if tier == 'quick': g = F.take_slice(g, 3, seed % 3)
    return F.take_slice(g, nsl, sl)


def stim_for(nv):
    """Stimulus lanes: {0,1,R,F} per variable, transition times from {1,3} (all combinations) for up to 3 variables,
    time 2 for further ones."""
    if nv <= 3:
        return wsim.stim_lanes(nv)
    n, init, tt, fin = wsim.stim_lanes(3)
    # extra variables cycle through 0,1,R@2,F@2 with the lane index
    for k in range(3, nv):
        p = np.arange(n)
        sel = (p // (7 ** (k - 3))) % 4
        init.append(np.array([(0, 1, 0, 1)[i] for i in sel], dtype=np.float32))
        fin.append(np.array([(0, 1, 1, 0)[i] for i in sel], dtype=np.float32))
        tt.append(np.full(n, 2.0, dtype=np.float32))
    return n, init, tt, fin


def make_sim(circuit, delays, sims, caps=16, reuse=False, strip=False, cuda=False, a_ctrl=None):
    from kyupy.wave_sim import WaveSim, WaveSimCuda
    cls = WaveSimCuda if cuda else WaveSim
    sim = cls(circuit, delays, sims=sims, c_caps=caps, a_ctrl=a_ctrl, c_reuse=reuse, strip_forks=strip)
    sim.simctl_int[0] = 0
    sim.simctl_int[1] = 0      # dataset selected by the seed parameter (0) for all lanes
    return sim


def assign(sim, pos_list, init, tt, fin, lanes=None):
    for k, pos in enumerate(pos_list):
        n = len(init[k])
        sim.s[0, pos, :n] = init[k]
        sim.s[1, pos, :n] = tt[k]
        sim.s[2, pos, :n] = fin[k]


def has_port_forks(c):
    return any(x.kind == '__fork__' and len(x.ins) == 0 for x in c.io_nodes)


def zero_fork_delays(circuit, names):
    """delay plan with zero delay on every line that feeds a fork (needed when forks are stripped)"""
    out = list(names)
    for l in circuit.lines:
        if l.reader.kind == '__fork__': out[l.index] = 'z'
    return out
