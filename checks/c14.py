"""C14 - every SDF delay lands on the right line, polarity and dataset - none is lost.

E1: small library-cell designs (rendered to Verilog, both branchforks settings) x SDF files generated
from an SDF AST (entry subsets/orders, edge qualifiers, value forms, CELL block groupings, several
top-level interconnect blocks, escaped names); oracle: expected delay array built from the AST.
"""
import itertools
import traceback

import numpy as np

from mc import common, render
from mc.netlist import NL

PROP = 'C14'
LEVEL = 'exploration'
RULE = ('designs of 1-3 library cells (3 libraries, with flip-flop, fan-out, escaped instance names) x branchforks x SDF ASTs: all subsets of IOPATH entries in file order, all permutations of the '
        'full set, duplicates; per entry edge qualifier {none,posedge,negedge} x value form {(r)(f), (r), ()(f), (r)()} by single deviation (pairs in thorough); CELL grouping {one block per '
        'instance, instance split over two blocks, interleaved blocks} x CELL layout {one DELAY section, one per entry, TIMINGCHECK between two sections, DELAY before INSTANCE, empty DELAY section first, all header entries + comments, single line, TIMESCALE 100 ps / 1us / absent}; the same DelayFile object also annotates the design parsed with the other branch-fork setting; INTERCONNECT entries port-to-pin / pin-to-pin with and without fan-out / zero-valued, in one or two top-level blocks; '
        'every entry carries distinct min:typ:max numbers, also written as integers, with negative numbers (mixed and all-negative) and with empty fields; distinct_nontrivial = distinct (design, SDF text) pairs with a non-zero expected array')
ASSUMPTIONS = ['entries are applied in file order (a later entry for the same line/polarity overwrites an earlier one); the output pin of an IOPATH does not select a different line',
               'without branch forks a single-reader interconnect may be annotated on either of the two lines between the pins (both readings of "sole line" accepted)',
               'library pin tables trusted (C19); two delay values per list at most (documented limit)']
LIBS = ['SAED90', 'SAED32', 'NANGATE']


def designs():
    yield 'nand', NL(2, [], [('NAND2', ('i0', 'i1'))], ['g0'])
    yield 'fan', NL(3, [], [('NAND2', ('i0', 'i1')), ('XOR2', ('g0', 'i2')), ('INV1', ('g0',))], ['g1', 'g2'])
    yield 'seq', NL(2, [('dff', 'g0')], [('AND2', ('i0', 'q0')), ('NOR2', ('n0', 'i1'))], ['g1'])
    yield 'ao', NL(3, [], [('AO21', ('i0', 'i1', 'i2')), ('BUF1', ('g0',))], ['g1'])
    yield 'open', NL(2, [], [('NAND2', ('i0', None)), ('NOR2', (None, 'i1'))], ['g0', 'g1'])
    # output pins that are not connected in the netlist (unused QN, a gate nobody reads): IOPATHs naming them still annotate the input line
    yield 'openout', NL(2, [('dff', 'g0')], [('AND2', ('i0', 'q0')), ('NOR2', ('i0', 'i1'))], ['g0'])
    # same pin names at different pin positions in different cell kinds (NANGATE: B1 is pin 1 of AOI21 and pin 2 of AOI22)
    yield 'mixpins', NL(4, [], [('AOI21', ('i0', 'i1', 'i2')), ('AOI22', ('i0', 'i1', 'i2', 'i3')), ('OAI21', ('g0', 'g1', 'i3'))], ['g2'])


FORMS = ['rf', 'r', 'ef', 're']


def vals(idx, vfmt='float'):
    a = 1 + 2 * idx
    r, f = [a, a + .25, a + .5], [a + 1, a + 1.25, a + 1.5]
    if vfmt == 'int': r, f = [a, a + 1, a + 2], [a + 3, a + 4, a + 5]
    elif vfmt == 'neg': r, f = [-a, -a + .25, a + .5], [a + 1, -(a + 1.25), -0.5]
    elif vfmt == 'empty_fields': r, f = [0, 0, a + .5], [a + 1, 0, a + 1.5]       # written as (::x) and (x::y)
    elif vfmt == 'allneg': r, f = [-(a + .5), -(a + .25), -a], [-(a + 1.5), -(a + 1.25), -(a + 1)]      # no positive number anywhere
    elif vfmt == 'allneg_mid': r, f = [-(a + .5), 0, -a], [-(a + 1.5), 0, -(a + 1)]      # written as (-x::-y)
    return r, f


def trip(v, vfmt='float'):
    if vfmt == 'int': return '(' + ':'.join(str(int(x)) for x in v) + ')'
    if vfmt in ('empty_fields', 'allneg_mid'): return '(' + ':'.join('' if x == 0 else f'{x:.3f}' for x in v) + ')'
    return '(' + ':'.join(f'{x:.3f}' for x in v) + ')'


def entry_text(e, escname):
    vf = e.get('vfmt', 'float')
    r, f = vals(e['idx'], vf)
    if e.get('zero'): r, f = [0, 0, 0], [0, 0, 0]
    form = e['form']
    t = lambda v: trip(v, vf if not e.get('zero') else 'float')
    body = {'rf': f'{t(r)} {t(f)}', 'r': t(r), 'ef': f'() {t(f)}', 're': f'{t(r)} ()'}[form]
    if e['kind'] == 'io':
        pin = e['pin'] if not e['edge'] else f'({e["edge"]} {e["pin"]})'
        return f'(IOPATH {pin} {e["opin"]} {body})'
    return f'(INTERCONNECT {escname(e["a"])} {escname(e["b"])} {body})'


LAYOUTS = ['plain', 'multi_delay', 'timingcheck_between', 'delay_first', 'empty_delay', 'headers', 'oneline', 'timescale_ps', 'timescale_us', 'no_timescale']


def render_sdf(blocks, escape, layout='plain'):
    """layout: how a CELL block arranges its sections (all forms the grammar accepts)
    plain: CELLTYPE, INSTANCE, one DELAY section | multi_delay: every entry in a DELAY section of its own |
    timingcheck_between: two DELAY sections with a TIMINGCHECK section between them | delay_first: DELAY section before
    CELLTYPE/INSTANCE | empty_delay: an empty DELAY section precedes the real one | headers: all optional file header
    entries and // comments | oneline: no line breaks | timescale_ps / timescale_us / no_timescale: other TIMESCALE headers (values are annotated as written)"""
    escname = (lambda s: s.replace('.', '\\.')) if escape else (lambda s: s)
    out = ['(DELAYFILE', '(SDFVERSION "OVI 2.1")', '(DESIGN "top")']
    if layout == 'headers':
        out += ['// a comment line', '(DATE "Sat Oct  3 2026")', '(VENDOR "v")', '(PROGRAM "p")', '(VERSION "1.0")', '(DIVIDER /)', '(VOLTAGE 1.2:1.2:1.2)',
                '(PROCESS "typ")', '(TEMPERATURE 25:25:25)', '(TIMESCALE 1ns) // trailing comment']
    elif layout == 'timescale_ps': out += ['(DIVIDER /)', '(TIMESCALE 100 ps)']      # the values are annotated as written, whatever unit the header names
    elif layout == 'timescale_us': out += ['(DIVIDER /)', '(TIMESCALE 1us)']
    elif layout == 'no_timescale': out += ['(DIVIDER /)']
    else:
        out += ['(DIVIDER /)', '(TIMESCALE 1ns)']
    def section(entries):
        return ['  (DELAY (ABSOLUTE'] + ['    ' + entry_text(e, escname) for e in entries] + ['  ))']
    tcheck = '  (TIMINGCHECK (SETUP (posedge D) (posedge CLK) (0.1:0.1:0.1)) (HOLD D (posedge CLK) (0.0:0.0:0.0)))'
    for inst, ctype, entries in blocks:
        head = [f'  (CELLTYPE "{ctype}")', f'  (INSTANCE {escname(inst)})' if inst else '  (INSTANCE)']
        out.append('(CELL')
        if layout == 'multi_delay':
            out += head
            for e in entries: out += section([e])
        elif layout == 'timingcheck_between':
            h = (len(entries) + 1) // 2
            out += head + section(entries[:h]) + [tcheck] + section(entries[h:])
        elif layout == 'delay_first':
            out += section(entries) + head
        elif layout == 'empty_delay':
            out += head + section([]) + section(entries)
        else:
            out += head + section(entries)
        out.append(')')
    out.append(')')
    if layout == 'oneline': return ' '.join(x.strip() for x in out) + '\n'
    return '\n'.join(out) + '\n'


def tasks(tier, seed):
    t = []
    for lib in LIBS:
        for dname, _ in designs():
            for bf in (False, True):
                t.append(('d', lib, dname, bf, tier, seed))
    return t


def run_task(task):
    res = common.Result()
    _, libname, dname, bf, tier, seed = task
    try:
        run_design(res, libname, dname, bf, tier, seed)
    except Exception as ex:
        res.violation(f'C14/{libname}/{dname}/task-exception-{type(ex).__name__}', {'kind': 'task', 'task': list(task)}, traceback.format_exc()[-1500:])
    return res


def build_design(libname, dname, bf, escape):
    import kyupy.techlib as tl
    from kyupy import verilog
    lib = getattr(tl, libname)
    nl = dict(designs())[dname]
    cmap = render.cell_map(lib)
    dff = render.DFF_CELLS[libname]
    text, ports, inst, _, _ = render.verilog(nl, cmap, dff, render.VOpts(escape=escape))
    c = verilog.parse(text, tlib=lib, branchforks=bf)
    # instances and their pins
    instances = []
    for k, (kind, ops) in enumerate(nl.gates):
        cell, ipins, opin = cmap[kind.upper()]
        iname = f'u_g{k}.x' if escape else f'u_g{k}'
        instances.append((iname, cell, list(ipins), [opin]))
    for k in inst:
        cell, pm = dff
        instances.append((inst[k], cell, [pm['D'], pm['CLK']], [pm['Q'], pm['QN']]))
    return lib, nl, c, instances, text


def io_candidates(instances):
    return [(iname, cell, p, op) for iname, cell, ipins, opins in instances for p in ipins for op in opins[:1 + (len(ipins) <= 2 and len(opins) > 1)]]


def ic_candidates(lib, c, instances):
    """(from, to) name pairs: port->pin and pin->pin for every connected input pin of every instance"""
    out = []
    for iname, cell, ipins, opins in instances:
        n = c.cells[iname]
        for p in ipins:
            line = n.ins[lib.pin_index(cell, p)] if lib.pin_index(cell, p) < len(n.ins) else None
            if line is None: continue
            d = line.driver
            while d.kind == '__fork__': d = d.ins[0].driver
            if d.kind in lib.cells:
                # find the output pin name of the driver
                l2 = line
                while l2.driver.kind == '__fork__': l2 = l2.driver.ins[0]
                opn = next(pn for pn, (i, o) in lib.cells[d.kind][1].items() if o and i == l2.driver_pin)
                out.append((f'{d.name}/{opn}', f'{iname}/{p}'))
            else:
                out.append((d.name, f'{iname}/{p}'))
    return out


def expected_iopaths(lib, c, blocks):
    exp = np.zeros((3, len(c.lines), 2, 2))
    for inst, ctype, entries in blocks:
        if inst is None: continue
        n = c.cells[inst]
        for e in entries:
            if e['kind'] != 'io': continue
            idx = lib.pin_index(n.kind, e['pin'])
            line = n.ins[idx] if idx < len(n.ins) else None
            if line is None: continue
            r, f = vals(e['idx'], e.get('vfmt', 'float'))
            if e['form'] == 'r': f = r
            elif e['form'] == 'ef': r = [0, 0, 0]
            elif e['form'] == 're': f = [0, 0, 0]
            pols = {None: [0, 1], 'posedge': [0], 'negedge': [1]}[e['edge']]
            for ip in pols:
                exp[:, line.index, ip, 0] = r
                exp[:, line.index, ip, 1] = f
    return exp


def expected_interconnects(lib, c, blocks, bf):
    """returns list of acceptable arrays (alternatives for the 'sole line' reading)"""
    exps = [np.zeros((3, len(c.lines), 2, 2))]
    for inst, ctype, entries in blocks:
        if inst is not None: continue
        for e in entries:
            if e['kind'] != 'ic' or e.get('zero'): continue
            r, f = vals(e['idx'], e.get('vfmt', 'float'))
            if e['form'] == 'r': f = r
            elif e['form'] == 'ef': r = [0, 0, 0]
            elif e['form'] == 're': f = [0, 0, 0]
            cn2, pn2 = e['b'].split('/')
            n2 = c.cells[cn2]
            rl = n2.ins[lib.pin_index(n2.kind, pn2)]          # line into the reader pin
            f2 = rl.driver                                     # fork in front of the pin
            cands = []
            if bf: cands = [f2.ins[0].index]                  # stem -> branch fork
            elif len(f2.outs) == 1: cands = [f2.ins[0].index, rl.index]
            else: cands = []                                   # fan-out without branch forks: cannot be annotated
            if not cands: continue
            new = []
            for base in exps:
                for li in cands:
                    a = base.copy()
                    a[:, li, :, 0] = np.asarray(r)[:, None]
                    a[:, li, :, 1] = np.asarray(f)[:, None]
                    new.append(a)
            exps = new[:8]
    return exps


_OTHER = {}


def sdf_case(res, case, ctx=None):
    from kyupy import sdf
    libname, dname, bf, escape, blocks = case['lib'], case['design'], case['bf'], case['escape'], case['blocks']
    lib, nl, c, instances, vtext = ctx or build_design(libname, dname, bf, escape)
    res.evals += 1
    text = render_sdf(blocks, escape, case.get('layout', 'plain'))
    res.count('layout_' + case.get('layout', 'plain'))
    key = f'C14/{libname}/{dname}/{"bf" if bf else "plain"}{"/esc" if escape else ""}/{common.h64(text):016x}'
    case = dict(case, text=text)
    try:
        df = sdf.parse(text)
        got = df.iopaths(c, lib)
        exp = expected_iopaths(lib, c, blocks)
        if got.shape != exp.shape:
            res.violation(key + '/iopaths-shape', case, f'iopaths() shape {got.shape} expected {exp.shape}')
        elif not np.array_equal(got, exp):
            bad = np.argwhere(got != exp)[0].tolist()
            res.violation(key + '/iopaths', case, f'iopaths()[dataset, line, in_pol, out_pol] = {bad}: got {got[tuple(bad)]} expected {exp[tuple(bad)]} ({int((got != exp).sum())} entries differ)\n{text}')
        got2 = df.iopaths(c, lib)
        if not np.array_equal(got, got2): res.violation(key + '/iopaths-second-call', case, 'a second iopaths() call on the same DelayFile returns a different array')
        if exp.any(): res.sig((libname, dname, bf, text))
        if any(b[0] is None for b in blocks):
            goti = df.interconnects(c, lib)
            exps = expected_interconnects(lib, c, blocks, bf)
            if not any(goti.shape == e.shape and np.array_equal(goti, e) for e in exps):
                e0 = exps[0]
                bad = np.argwhere(goti != e0)[0].tolist() if goti.shape == e0.shape else 'shape'
                res.violation(key + '/interconnects', case, f'interconnects() differs from the expected array at {bad}: got {goti[tuple(bad)] if bad != "shape" else goti.shape} expected {e0[tuple(bad)] if bad != "shape" else e0.shape}\n{text}')
            if not np.array_equal(df.iopaths(c, lib), got): res.violation(key + '/iopaths-after-interconnects', case, 'iopaths() changes after interconnects() was called')
            if exps[0].any(): res.count('ic_nonzero')
            res.count('ic_cases')
        if any(b[0] is None for b in blocks) or common.h64(text) % 4 == 0:
            # the same DelayFile object annotates a second circuit: the same design parsed with the other branch-fork setting (other
            # line numbering, other fork names).  What it returns is a function of (file, circuit) alone.
            k2 = (libname, dname, not bf, escape)
            if k2 not in _OTHER: _OTHER[k2] = build_design(libname, dname, not bf, escape)
            c2 = _OTHER[k2][2]
            g2, e2 = df.iopaths(c2, lib), expected_iopaths(lib, c2, blocks)
            if g2.shape != e2.shape or not np.array_equal(g2, e2):
                res.violation(key + '/iopaths-second-circuit', case, f'iopaths() of the same DelayFile for a second circuit (branchforks={not bf}) differs from the expected array\n{text}')
            if any(b[0] is None for b in blocks):
                gi2 = df.interconnects(c2, lib)
                ex2 = expected_interconnects(lib, c2, blocks, not bf)
                if not any(gi2.shape == e.shape and np.array_equal(gi2, e) for e in ex2):
                    res.violation(key + '/interconnects-second-circuit', case, f'interconnects() of the same DelayFile for a second circuit (branchforks={not bf}) differs from the expected array\n{text}')
            res.count('second_circuit_cases')
        res.count('cases')
    except Exception as ex:
        res.violation(key + f'/exception-{type(ex).__name__}', case, traceback.format_exc()[-1000:] + '\n' + text)


def mk(kind, idx, **kw):
    e = {'kind': kind, 'idx': idx, 'edge': None, 'form': 'rf'}
    e.update(kw)
    return e


def group(entries_by_inst, instances, mode):
    """entries_by_inst: list of (inst, entry) in file order -> CELL blocks"""
    ctype = {i[0]: i[1] for i in instances}
    ctype[None] = 'top'
    blocks = []
    if mode == 'per_inst':
        order = []
        for inst, e in entries_by_inst:
            if inst not in order: order.append(inst)
        for inst in order:
            blocks.append((inst, ctype[inst], [e for i, e in entries_by_inst if i == inst]))
    elif mode == 'split':     # every entry its own block (an instance is split over several blocks)
        for inst, e in entries_by_inst: blocks.append((inst, ctype[inst], [e]))
    elif mode == 'interleaved':   # first entry of each instance, then the rest
        seen = set()
        first, rest = [], []
        for inst, e in entries_by_inst:
            (rest if inst in seen else first).append((inst, e)); seen.add(inst)
        for inst, e in first: blocks.append((inst, ctype[inst], [e]))
        order = []
        for inst, e in rest:
            if inst not in order: order.append(inst)
        for inst in order: blocks.append((inst, ctype[inst], [e for i, e in rest if i == inst]))
    return blocks


def run_design(res, libname, dname, bf, tier, seed):
    import kyupy.techlib as tl
    cm = render.cell_map(getattr(tl, libname))
    if any(k.upper() not in cm for k, _ in dict(designs())[dname].gates):
        res.count('design_not_mappable')
        return
    for escape in (False, True):
        ctx = build_design(libname, dname, bf, escape)
        lib, nl, c, instances, vtext = ctx
        ios = io_candidates(instances)
        ics = ic_candidates(lib, c, instances)
        def run(entries, mode='per_inst', layout='plain'):
            blocks = group(entries, instances, mode)
            sdf_case(res, {'kind': 'sdf', 'lib': libname, 'design': dname, 'bf': bf, 'escape': escape, 'blocks': blocks, 'layout': layout}, ctx)
        def io(k, i, **kw):
            iname, cell, p, op = ios[k]
            return (iname, mk('io', i, pin=p, opin=op, **kw))
        def ic(k, i, **kw):
            a, b = ics[k]
            return (None, mk('ic', i, a=a, b=b, **kw))
        n = len(ios)
        # all subsets in file order
        for mask in range(1 << n) if (n <= 6 or tier == 'thorough') else [m for m in range(1 << n) if bin(m).count('1') in (1, n - 1, n) or m % 7 == seed % 7]:
            ent = [io(k, k) for k in range(n) if (mask >> k) & 1]
            if ent: run(ent)
        full = [io(k, k) for k in range(n)]
        # permutations of the full set (all for <= 4 entries)
        perms = list(itertools.permutations(range(n))) if n <= 4 else [tuple(range(n))[::-1]] + [tuple(list(range(r, n)) + list(range(r))) for r in range(1, n)]
        for p in perms:
            for mode in ('per_inst', 'split', 'interleaved'):
                run([full[k] for k in p], mode)
        # CELL section layouts x groupings on the full set (forward and reversed) and on every (n-1)-subset
        for layout in LAYOUTS[1:]:
            for mode in ('per_inst', 'split', 'interleaved'):
                run(full, mode, layout)
                run(full[::-1], mode, layout)
            for k in range(n):
                run(full[:k] + full[k + 1:] + [io(k, n + 5, edge='negedge')], 'per_inst', layout)
        # single deviations: edge qualifier / value form per entry; duplicates overwrite
        for k in range(n):
            for edge in ('posedge', 'negedge'):
                run(full[:k] + [io(k, k, edge=edge)] + full[k + 1:])
                run(full + [io(k, n + 1, edge=edge)], 'split')              # overwrites one polarity of an earlier entry
                run([io(k, n + 2, edge=edge)] + full, 'interleaved')        # is overwritten by the later plain entry
            for form in FORMS[1:]:
                run(full[:k] + [io(k, k, form=form)] + full[k + 1:])
                for edge in ('posedge', 'negedge') if tier == 'thorough' or k == seed % n else ():
                    run(full[:k] + [io(k, k, form=form, edge=edge)] + full[k + 1:], 'split')
            run(full + [io(k, n + 3)], 'per_inst')
            # a later entry for the same pin whose value for one output polarity is empty: that polarity reads 0 again
            run(full + [io(k, n + 6, form='ef')], 'split')
            run(full + [io(k, n + 7, form='re')], 'per_inst')
            run(full + [io(k, n + 8, form='ef', edge='negedge')], 'interleaved')
            for vf in ('int', 'neg', 'empty_fields', 'allneg', 'allneg_mid'):
                run(full[:k] + [io(k, k, vfmt=vf)] + full[k + 1:], 'split' if k % 2 else 'per_inst')
            run(full[:k] + [io(k, k, vfmt='allneg', form='ef')] + full[k + 1:], 'per_inst')
            run(full[:k] + [io(k, k, vfmt='allneg_mid', form='re', edge='posedge')] + full[k + 1:], 'per_inst')
            run(full + [io(k, n + 3)], 'split')
        # interconnects: one and two top-level blocks, mixed with iopaths, zero-valued entries
        m = len(ics)
        allic = [ic(k, 20 + k) for k in range(m)]
        run(allic)
        run(allic, 'split')
        run(full + allic, 'interleaved')
        run(allic[: m // 2] + full + allic[m // 2:], 'split')
        for layout in LAYOUTS[1:]:
            run(allic, 'per_inst', layout)
            run(allic[: m // 2] + full + allic[m // 2:], 'per_inst', layout)
        for k in range(m):
            run([ic(k, 30 + k)])
            run(allic[:k] + [ic(k, 40, zero=True)] + allic[k + 1:], 'split')
            run(allic[:k] + [ic(k, 45 + k, vfmt='int')] + allic[k + 1:])
            run(allic[:k] + [ic(k, 46 + k, vfmt='empty_fields')] + allic[k + 1:], 'split')
            for form in FORMS[1:]:
                run(allic[:k] + [ic(k, 50 + k, form=form)] + allic[k + 1:], 'split' if k % 2 else 'per_inst')
        if len(res.samples) < 1:
            res.samples.append({'lib': libname, 'design': dname, 'sdf': render_sdf(group(full[:2] + allic[:1], instances, 'split'), escape)})


def replay(case):
    common.setup_kyupy()
    res = common.Result()
    if case.get('kind') == 'sdf': sdf_case(res, case)
    return res.violations


def finish(agg, tier):
    need = ['cases', 'ic_cases', 'ic_nonzero', 'second_circuit_cases']
    missing = [k for k in need if not agg.counters.get(k)]
    if missing: raise common.HarnessError(f'vacuity guard: {missing} zero')
    return {}
