"""C15 - logic-value encodings convert losslessly and follow the axis convention.

Complete enumeration of small arrays/strings plus structured fills for larger shapes.
"""
import itertools
import traceback

import numpy as np

from mc import common, ref

PROP = 'C15'
LEVEL = 'exploration'
RULE = ('all strings over the 8 canonical characters up to length 4 (each converted twice, the first result overwritten in place in between; lengths 2-3 also in the nested one-pattern-per-group form), every alias character alone, all pairs over the 25 alias characters and every alias inside a longer string; all (signals, patterns) '
        'arrays with signals*patterns <= 4 over the 8 values (a conversion with a pattern count that is not a multiple of 8 follows one of the full padded shape); structured fills (every position takes every value over two '
        'backgrounds) for shapes up to (3,17), (2,3,9) and 1-D; pattern counts 1..17; unpackbits/packbits for all 8- and '
        '16-bit values of every integer dtype and walking/two-bit/boundary patterns for 32/64 bit; popcount on all bytes '
        'and arrays; distinct_nontrivial = distinct (function, input) signatures')
ASSUMPTIONS = ['mv_str is defined for 0-, 1- and 2-dimensional arrays (documented rendering: one line per pattern)',
               'a (signals, 1) array renders to one string which parses back to a 1-D vector (documented single-vector form); compared after flattening',
               'likewise a (1, patterns) array renders to one-character lines, which mvarray() reads as a single vector (the test suite pins mvarray(1,0,1) to that reading); compared after flattening',
               'pack/unpack are exercised on C-contiguous arrays']

ALIASES = {'0': 0, 'L': 0, 'l': 0, '1': 3, 'H': 3, 'h': 3, '-': 2, 'Z': 2, 'z': 2, 'X': 1, 'x': 1, '?': 1, 'U': 1,
           'R': 5, 'r': 5, '/': 5, 'F': 6, 'f': 6, '\\': 6, 'P': 4, 'p': 4, '^': 4, 'N': 7, 'n': 7, 'v': 7}
NONSTR = [(0, 0), (1, 3), (False, 0), (True, 3), (None, 2)]
INT_DTYPES = ['uint8', 'int8', 'uint16', 'int16', 'uint32', 'int32', 'uint64', 'int64']


def tasks(tier, seed):
    t = [('strings', L) for L in (1, 2, 3, 4)] + [('aliases',), ('small_arrays',), ('fills',), ('popcount',)]
    if tier == 'thorough':
        # complete families of larger arrays: all 8^5 arrays of shapes 1x5/5x1, all 8^6 of 2x3/3x2, split by the first value
        t += [('small_arrays', sh, first) for sh in ((1, 5), (5, 1), (2, 3), (3, 2)) for first in range(8)]
        t += [('strings', 5)]
    for dt in INT_DTYPES: t.append(('bits', dt))
    return t


def run_task(task):
    import kyupy, kyupy.logic as lg
    res = common.Result()
    try:
        globals()['_' + task[0]](kyupy, lg, res, task)
    except Exception as ex:
        res.violation(f'C15/{task[0]}/exception-{type(ex).__name__}', {'task': list(task)}, traceback.format_exc()[-1500:])
    return res


def replay(case):
    common.setup_kyupy()
    return run_task(tuple(case['task'])).violations


def own_mv_to_bp(a):
    """reference packing: a (..., s, n) codes -> (..., s, 3, ceil(n/8)), lane p = byte p>>3 bit p&7"""
    n = a.shape[-1]; nb = (n + 7) // 8
    out = np.zeros(a.shape[:-1] + (3, nb), dtype=np.uint8)
    for idx in np.ndindex(a.shape):
        p = idx[-1]
        for b in range(3):
            if (int(a[idx]) >> b) & 1: out[idx[:-1] + (b, p >> 3)] |= np.uint8(1 << (p & 7))
    return out


def _strings(kyupy, lg, res, task):
    L = task[1]
    for tup in itertools.product(range(8), repeat=L):
        s = ''.join(ref.CHARS[c] for c in tup)
        res.evals += 1
        a = lg.mvarray(s)
        exp = np.array(tup, dtype=np.uint8)
        if a.shape != exp.shape or not np.array_equal(a, exp) or a.dtype != np.uint8:
            res.violation(f'C15/strings/mvarray/{s}', {'task': list(task)}, f'mvarray({s!r}) = {a!r}')
            continue
        back = lg.mv_str(a)
        if str(back) != s:
            res.violation(f'C15/strings/mv_str/{s}', {'task': list(task)}, f'mv_str(mvarray({s!r})) = {back!r}')
        # the returned array belongs to the caller: overwriting it must not change what the next conversion of the same string gives
        try:
            a[...] = 7 - a
            again = lg.mvarray(s)
            if not np.array_equal(again, exp) or again is a:
                res.violation(f'C15/strings/mvarray-again/{s}', {'task': list(task)}, f'mvarray({s!r}) after the first result was overwritten in place = {again.tolist()} expected {exp.tolist()}')
            bpa = lg.bparray(s)
            bpa[...] = 0
            if not np.array_equal(lg.bp_to_mv(lg.bparray(s))[:, 0], exp):
                res.violation(f'C15/strings/bparray-again/{s}', {'task': list(task)}, f'bparray({s!r}) after the first result was zeroed in place decodes to {lg.bp_to_mv(lg.bparray(s)).tolist()}')
            res.count('second_conversions')
        except ValueError as ex:     # read-only result: also a change of contract
            res.violation(f'C15/strings/mvarray-readonly/{s}', {'task': list(task)}, f'result of mvarray/bparray is not writable: {ex}')
        if 2 <= L <= 3:
            # as one pattern among two: axis convention (signals second-to-last, patterns last)
            s2 = s[::-1]
            a2 = lg.mvarray(s, s2)
            exp2 = np.array([list(tup), list(tup[::-1])], dtype=np.uint8).T
            if a2.shape != exp2.shape or not np.array_equal(a2, exp2):
                res.violation(f'C15/strings/mvarray2/{s}', {'task': list(task)}, f'mvarray({s!r},{s2!r}) shape {a2.shape} = {a2.tolist()}')
            else:
                st = lg.mv_str(a2)
                if st != s + '\n' + s2:
                    res.violation(f'C15/strings/mv_str2/{s}', {'task': list(task)}, f'mv_str of two patterns = {st!r}')
                if lg.mv_str(a2, delim='|') != s + '|' + s2:
                    res.violation(f'C15/strings/mv_str-delim/{s}', {'task': list(task)}, 'delim not honoured')
            # nested form, one pattern per group: the groups stay apart (one row per group), nothing is merged
            g = lg.mvarray([s], [s2])
            expg = np.array([list(tup), list(tup[::-1])], dtype=np.uint8)
            if g.shape != expg.shape or not np.array_equal(g, expg):
                res.violation(f'C15/strings/mvarray-groups/{s}', {'task': list(task)}, f'mvarray([{s!r}], [{s2!r}]) has shape {g.shape} = {g.tolist()}, expected one row per group {expg.tolist()}')
            res.count('nested_single_pattern_groups')
        res.sig(('str', s))
    res.samples.append({'string': 'X1-R'[:L], 'mvarray': lg.mvarray('X1-R'[:L]).tolist()})


def _aliases(kyupy, lg, res, task):
    for ch, code in ALIASES.items():
        res.evals += 1
        a = lg.mvarray(ch)
        if a.shape != (1,) or int(a[0]) != code:
            res.violation(f'C15/aliases/{ch!r}', {'task': list(task)}, f'mvarray({ch!r}) = {a.tolist()} expected [{code}]')
        r = lg.mv_str(lg.mvarray(ch))
        if str(r) != ref.CHARS[code]:
            res.violation(f'C15/aliases/render/{ch!r}', {'task': list(task)}, f'renders as {r!r} expected {ref.CHARS[code]!r}')
        res.sig(('alias', ch))
    # aliases inside longer strings (all pairs over the full alias alphabet, and every alias between two canonical characters)
    al = list(ALIASES)
    for a1 in al:
        for a2 in al:
            res.evals += 1
            s2 = a1 + a2
            got = lg.mvarray(s2)
            if got.tolist() != [ALIASES[a1], ALIASES[a2]]:
                res.violation(f'C15/aliases/pair/{s2!r}', {'task': list(task)}, f'mvarray({s2!r}) = {got.tolist()} expected {[ALIASES[a1], ALIASES[a2]]}')
        for left, right in (('0', '1'), ('R', 'X')):
            res.evals += 1
            s3 = left + a1 + right
            exp = [ALIASES[left], ALIASES[a1], ALIASES[right]]
            if lg.mvarray(s3).tolist() != exp:
                res.violation(f'C15/aliases/inner/{s3!r}', {'task': list(task)}, f'mvarray({s3!r}) = {lg.mvarray(s3).tolist()} expected {exp}')
            two = lg.mvarray(s3, s3[::-1])
            if two.tolist() != [[exp[k], exp[2 - k]] for k in range(3)]:
                res.violation(f'C15/aliases/inner2/{s3!r}', {'task': list(task)}, f'mvarray({s3!r}, reversed) = {two.tolist()}')
            bp = lg.bparray(s3)
            if lg.bp_to_mv(bp)[:, 0].tolist() != exp:
                res.violation(f'C15/aliases/bparray/{s3!r}', {'task': list(task)}, f'bparray({s3!r}) decodes to {lg.bp_to_mv(bp)[:, 0].tolist()} expected {exp}')
        res.sig(('alias-pairs', a1))
    for v, code in NONSTR:
        res.evals += 1
        a = lg.mvarray([v, v])
        if a.tolist() != [code, code]:
            res.violation(f'C15/aliases/value/{v!r}', {'task': list(task)}, f'mvarray([{v!r}]*2) = {a.tolist()}')
        res.sig(('value', repr(v)))
    # scalar rendering of each of the eight values
    for code in range(8):
        res.evals += 1
        r = lg.mv_str(np.uint8(code)) if False else lg.mv_str(np.array(code, dtype=np.uint8))
        if str(r) != ref.CHARS[code]:
            res.violation(f'C15/aliases/scalar/{code}', {'task': list(task)}, f'mv_str(array({code})) = {r!r}')


def _roundtrip(lg, res, task, a, tag):
    """mv -> bp -> mv, bp layout, padding, strings for ndim <= 2"""
    res.evals += 1
    n = a.shape[-1]
    if a.ndim > 1 and n % 8:
        # the previous conversion in this process had the same padded shape, more patterns and no zero anywhere:
        # padding lanes of the next result read as 0 all the same
        lg.mv_to_bp(np.full(a.shape[:-1] + (n + 8 - n % 8,), 7, dtype=np.uint8))
        res.count('conversions_after_fuller_one')
    bp = lg.mv_to_bp(a)
    a2 = a if a.ndim > 1 else a[:, np.newaxis]     # documented: a 1-D vector is one pattern
    n2 = a2.shape[-1]
    exp_bp = own_mv_to_bp(a2)
    if bp.shape != exp_bp.shape or not np.array_equal(bp, exp_bp):
        res.violation(f'C15/{task[0]}/mv_to_bp/{tag}', {'task': list(task)}, f'mv_to_bp wrong for shape {a.shape}: got shape {bp.shape}')
        return
    back = lg.bp_to_mv(bp)
    exp_back = np.zeros(a2.shape[:-1] + (8 * bp.shape[-1],), dtype=np.uint8)
    exp_back[..., :n2] = a2
    if back.shape != exp_back.shape or not np.array_equal(back, exp_back):
        res.violation(f'C15/{task[0]}/bp_to_mv/{tag}', {'task': list(task)}, f'bp_to_mv(mv_to_bp(a)) != a (padded with 0) for shape {a.shape}')
    if a.ndim <= 2:
        s = lg.mv_str(a)
        if a.ndim == 1:
            exp_s = ''.join(ref.CHARS[c] for c in a)
            b = lg.mvarray(s)
        else:
            exp_s = '\n'.join(''.join(ref.CHARS[c] for c in a[:, p]) for p in range(a.shape[1]))
            b = lg.mvarray(*s.split('\n'))
        if s != exp_s:
            res.violation(f'C15/{task[0]}/mv_str/{tag}', {'task': list(task)}, f'mv_str wrong for shape {a.shape}: {s!r} expected {exp_s!r}')
        elif not np.array_equal(np.asarray(b).reshape(-1), a.reshape(-1)) or (a.ndim == 2 and a.shape[1] > 1 and a.shape[0] > 1 and b.shape != a.shape):
            res.violation(f'C15/{task[0]}/mvarray-of-mv_str/{tag}', {'task': list(task)}, f'mvarray(mv_str(a)) != a for shape {a.shape}: {b.tolist()}')
        # every delimiter (empty, one character, several characters, containing a newline, falsy-looking) separates the patterns verbatim
        if a.ndim == 2:
            cols = [''.join(ref.CHARS[c] for c in a[:, p]) for p in range(a.shape[1])]
            for delim in ('', ' ', ',', ', ', ' | ', '\r\n', ';\n', '--', '0'):
                got = lg.mv_str(a, delim=delim)
                if got != delim.join(cols):
                    res.violation(f'C15/{task[0]}/mv_str-delim/{delim!r}/{tag}', {'task': list(task)}, f'mv_str(a, delim={delim!r}) = {got!r} expected {delim.join(cols)!r} for shape {a.shape}')
                res.count('mv_str_delims')
        # bparray(strings) == mv_to_bp(mvarray(strings))
        bb = lg.bparray(s) if a.ndim == 1 else lg.bparray(*s.split('\n'))
        if a.ndim == 1 or (a.shape[1] > 1 and a.shape[0] > 1):
            if bb.shape != exp_bp.shape or not np.array_equal(bb, exp_bp):
                res.violation(f'C15/{task[0]}/bparray/{tag}', {'task': list(task)}, f'bparray wrong for shape {a.shape}')
    res.sig((tag, a.shape, a.tobytes()))


def _small_arrays(kyupy, lg, res, task):
    if len(task) > 1:
        (s, n), first = task[1], task[2]
        for rest in itertools.product(range(8), repeat=s * n - 1):
            vals = (first,) + rest
            a = np.array(vals, dtype=np.uint8).reshape(s, n)
            _roundtrip(lg, res, task, a, f'{s}x{n}/' + ''.join(map(str, vals)))
        return
    for s, n in [(1, 1), (1, 2), (2, 1), (1, 3), (3, 1), (1, 4), (4, 1), (2, 2)]:
        for vals in itertools.product(range(8), repeat=s * n):
            a = np.array(vals, dtype=np.uint8).reshape(s, n)
            _roundtrip(lg, res, task, a, f'{s}x{n}/' + ''.join(map(str, vals)))
    res.samples.append({'array': [[0, 5], [3, 1]], 'mv_str': lg.mv_str(np.array([[0, 5], [3, 1]], dtype=np.uint8))})


def _fills(kyupy, lg, res, task):
    shapes = [(n,) for n in range(1, 18)] + [(1, n) for n in range(1, 18)] + [(3, n) for n in (7, 8, 9, 16, 17)] + \
             [(2, 3, 9), (2, 1, 8), (1, 2, 2, 17)]
    for sh in shapes:
        size = int(np.prod(sh))
        for bg in (0, 5):
            for pos in range(size):
                for v in range(8):
                    a = np.full(size, bg, dtype=np.uint8); a[pos] = v
                    _roundtrip(lg, res, task, a.reshape(sh), f'fill{sh}/bg{bg}/p{pos}/v{v}')


def _bits(kyupy, lg, res, task):
    dt = np.dtype(task[1])
    bits = dt.itemsize * 8
    info = np.iinfo(dt)
    if bits <= 16:
        vals = np.arange(info.min, info.max + 1, dtype=np.int64).astype(dt)
    else:
        pats = set()
        for i in range(bits):
            pats.add(1 << i); pats.add(((1 << bits) - 1) ^ (1 << i))
            for j in range(i):
                pats.add((1 << i) | (1 << j))
        pats |= {0, (1 << bits) - 1, 1 << (bits - 1), (1 << (bits - 1)) - 1, 0x0123456789ABCDEF & ((1 << bits) - 1), 0xDEADBEEFCAFEF00D & ((1 << bits) - 1)}
        vals = np.array(sorted(pats), dtype=np.uint64).astype(f'uint{bits}').view(f'uint{bits}')
        vals = vals.view(dt) if dt.kind == 'i' else vals.astype(dt)
    res.evals += len(vals)
    u = lg.unpackbits(vals)
    if u.shape != vals.shape + (bits,):
        res.violation(f'C15/bits/{dt}/shape', {'task': list(task)}, f'unpackbits shape {u.shape}')
        return
    # bit k of item i, little order
    uv = vals.astype(np.int64).astype(np.uint64) if dt.kind == 'u' else vals.astype(np.int64).view(np.uint64)
    expu = np.zeros((len(vals), bits), dtype=np.uint8)
    for k in range(bits):
        expu[:, k] = (uv >> np.uint64(k)) & np.uint64(1)
    if not np.array_equal(u, expu):
        i = int(np.argwhere(np.any(u != expu, axis=1))[0][0])
        res.violation(f'C15/bits/{dt}/unpack', {'task': list(task)}, f'unpackbits({vals[i]}) = {u[i].tolist()}')
    p = lg.packbits(u, dt)
    if p.shape != vals.shape or p.dtype != dt or not np.array_equal(p, vals):
        res.violation(f'C15/bits/{dt}/roundtrip', {'task': list(task)}, 'packbits(unpackbits(a), dtype) != a')
    # every length of the last axis from 1 to width+3: longer inputs are truncated, shorter ones padded with 0 (unsigned) or with the
    # most significant supplied bit (signed); expected values by plain integer arithmetic
    pats = [0, 1, 0b10, 0xA5, 0x80, 0xFF, 0x7F, 0x100, 0x8000, 0xFFFF, 0x5A5A5A, 0x800000, 0xFFFFFF, (1 << 31), (1 << 31) - 1, (1 << 40) + 5, (1 << 55), (1 << 63) + 3, (1 << 64) - 1, (1 << 66) - 1]
    for L in range(1, bits + 4):
        rows = np.array([[(p >> i) & 1 for i in range(L)] for p in pats], dtype=np.uint8)
        got = lg.packbits(rows, dt)
        exp = []
        for p in pats:
            v = p & ((1 << min(L, bits)) - 1)
            if L < bits and dt.kind == 'i' and (p >> (L - 1)) & 1: v |= ((1 << bits) - 1) ^ ((1 << L) - 1)     # sign extension from the last supplied bit
            if dt.kind == 'i' and v >= (1 << (bits - 1)): v -= (1 << bits)
            exp.append(v)
        res.evals += len(pats)
        if got.shape != (len(pats),) or got.dtype != dt or [int(x) for x in got] != exp:
            bad = next((i for i in range(len(pats)) if got.shape == (len(pats),) and int(got[i]) != exp[i]), 0)
            res.violation(f'C15/bits/{dt}/length{L}', {'task': list(task)}, f'packbits of {L} bits {rows[bad].tolist()} into {dt}: got {got[bad] if got.shape == (len(pats),) else got.shape} expected {exp[bad]}')
        gb = lg.packbits(rows.astype(bool), dt)
        if [int(x) for x in np.asarray(gb).reshape(-1)] != exp:
            res.violation(f'C15/bits/{dt}/length{L}-bool', {'task': list(task)}, f'packbits of a boolean array with {L} bits into {dt} differs')
        res.count('packbits_lengths')
    # shape preservation on 2-D / 3-D views of the same data
    m = (len(vals) // 6) * 6
    for sh in [(m // 2, 2), (m // 6, 3, 2)]:
        v2 = vals[:m].reshape(sh)
        u2 = lg.unpackbits(v2)
        if u2.shape != sh + (bits,) or not np.array_equal(lg.packbits(u2, dt), v2):
            res.violation(f'C15/bits/{dt}/nd{len(sh)}', {'task': list(task)}, f'pack/unpack wrong on shape {sh}')
    for v in vals[:: max(1, len(vals) // 64)]:
        res.sig(('bits', str(dt), int(v)))
    res.samples.append({'dtype': str(dt), 'value': int(vals[len(vals) // 3]), 'bits_little': u[len(vals) // 3].tolist()})


def _popcount(kyupy, lg, res, task):
    allb = np.arange(256, dtype=np.uint8)
    for v in allb:
        res.evals += 1
        got = int(kyupy.popcount(np.array([v], dtype=np.uint8)))
        if got != bin(int(v)).count('1'):
            res.violation(f'C15/popcount/byte{v}', {'task': list(task)}, f'popcount([{v}]) = {got}')
        res.sig(('pop', int(v)))
    for sh in [(256,), (16, 16), (4, 8, 8), (0,), (3, 3, 3)]:
        a = (np.arange(int(np.prod(sh)), dtype=np.int64) * 37 % 256).astype(np.uint8).reshape(sh)
        res.evals += 1
        exp = sum(bin(int(x)).count('1') for x in a.reshape(-1))
        got = int(kyupy.popcount(a))
        if got != exp:
            res.violation(f'C15/popcount/shape{sh}', {'task': list(task)}, f'popcount on shape {sh} = {got} expected {exp}')
    # popcount of packed bit-parallel planes counts lanes
    for n in range(1, 18):
        a = np.zeros((1, n), dtype=np.uint8); a[0, ::2] = 3
        bp = lg.mv_to_bp(a)
        if int(kyupy.popcount(bp[0, 0])) != (n + 1) // 2:
            res.violation(f'C15/popcount/lanes{n}', {'task': list(task)}, 'popcount of a packed plane != number of ONE lanes')
        res.evals += 1
