"""C09 - circuit graph stays consistent under every edit history.

E2: breadth-first search over all histories of public edit operations on the real
kyupy.circuit.Circuit, starting from the empty circuit; structural invariants and a lock-step
dict/list reference model are checked after every transition.
"""
import pickle
import traceback

from mc import common, e2

PROP = 'C09'
LEVEL = 'model_checking'
RULE = ('states = canonical form of the real Circuit (node list with kinds and pin lists, line list, io list); transitions = public edit operations '
        '(Node, Line implicit/explicit on free pins, Line.remove, Node.remove of disconnected nodes, io_nodes append/replace, get_or_add_fork, '
        'eliminate_1to1_forks, substitute from a menu of 8 implementations (bench-parsed with fork ports; hand-built with port cells and fan-out/alias forks in a row, with and without 1:1 forks eliminated), copy, pickle round trip; the circuit is serialised before every edit and every state reached by an edit is pickle-round-tripped) over name pools; BFS to a depth bound from the '
        'empty circuit and from seeded non-initial states; distinct_nontrivial = distinct canonical states')
ASSUMPTIONS = ['well-formed use only: explicit pins on free positions (forks: first free output pin, input pin 0), nodes removed only when disconnected and not a port, '
               'eliminate_1to1_forks only when every single-output non-port fork has a driver, substitute only when pin counts fit',
               'canonical state contains everything later operations can observe (names, kinds, pin lists, line endpoints, port list), so merging equal states is sound',
               'after substitute the reference model is re-synchronised from the real object (its function is checked in C10); all invariants are still evaluated']

FORKS = ['f0', 'f1', 'f2']
CELLS = [('c0', 'AND2'), ('c1', 'dff'), ('c2', 'OR2')]


def _impl_fork_chain():
    """hand-built implementation whose first output port sits behind a fan-out stem and an alias fork (two non-port forks in a row), cell ports"""
    from kyupy.circuit import Circuit, Node, Line
    c = Circuit('chain')
    a = Node(c, 'a', 'input'); y = Node(c, 'y', 'output'); z = Node(c, 'z', 'output')
    for n in (a, y, z): c.io_nodes.append(n)
    g = Node(c, 'g', 'BUF1'); s1 = Node(c, 's1'); s2 = Node(c, 's2'); h = Node(c, 'h', 'INV1')
    Line(c, a, g); Line(c, g, s1); Line(c, s1, s2); Line(c, s2, y); Line(c, s1, h); Line(c, h, z)
    return c


def _impl_fork_two_ports():
    """hand-built implementation in which one internal fork drives a gate and two output ports directly (ports are cells)"""
    from kyupy.circuit import Circuit, Node, Line
    c = Circuit('twoports')
    a = Node(c, 'a', 'input'); y = Node(c, 'y', 'output'); z = Node(c, 'z', 'output'); w = Node(c, 'w', 'output')
    for n in (a, y, z, w): c.io_nodes.append(n)
    g = Node(c, 'g', 'BUF1'); s = Node(c, 's'); h = Node(c, 'h', 'INV1')
    Line(c, a, g); Line(c, g, s); Line(c, s, h); Line(c, s, y); Line(c, s, z); Line(c, h, w)
    return c


def impl_menu():
    from kyupy import bench
    return [
        bench.parse('input(a,b) output(y) y=AND2(a,b)'),                      # single gate
        bench.parse('input(a,b) output(y) n=INV1(a) y=AND2(n,b)'),            # two gates
        bench.parse('input(a) output(y,z) y=BUF1(a) z=INV1(y)'),              # output read internally, two outputs
        bench.parse('input(a,b) output(y) y=BUF1(a)'),                        # ignored input
        bench.parse('input(x,y,z) output(q) t=INV1(x) q=OR2(z,t)'),          # ignored input at a position that the designated cell wires internally
        _impl_fork_chain(),                                                  # forks in a row between the gate and the first output port
        _impl_fork_chain(),                                                  # the same, kept as parsed (1:1 alias fork not eliminated)
        _impl_fork_two_ports(),                                              # one fork feeds a gate and two output ports
    ]


class CircuitSystem:
    def __init__(self, nforks, ncells, with_subst=True, max_nodes=5, max_lines=5):
        from kyupy.circuit import Circuit, Node, Line
        self.Circuit, self.Node, self.Line = Circuit, Node, Line
        self.forks = FORKS[:nforks]
        self.cells = CELLS[:ncells]
        self.impls = impl_menu() if with_subst else []
        self.max_nodes, self.max_lines = max_nodes, max_lines
        for im in self.impls[:6]: im.eliminate_1to1_forks()
        self.swap_deletions = 0

    # ---- E2 interface
    def initial(self): return self.Circuit('t')
    def clone(self, c): raise NotImplementedError
    def model_initial(self): return Model()
    def model_clone(self, m): return m.clone()

    def find(self, c, ref):
        flavour, name = ref
        return c.forks[name] if flavour == 'f' else c.cells[name]

    def enabled(self, c):
        ops = []
        nodes = list(c.nodes)
        if len(nodes) < self.max_nodes:
            for f in self.forks:
                if f not in c.forks: ops.append(['fork', f])
            for nm, kind in self.cells:
                if nm not in c.cells: ops.append(['cell', nm, kind])
            for f in self.forks[:1]:
                ops.append(['get_or_add_fork', f])
        refs = [('f' if n.kind == '__fork__' else 'c', n.name) for n in nodes]
        if len(c.lines) < self.max_lines:
            for d in refs:
                for r in refs:
                    ops.append(['line', list(d), list(r)])
                    dn, rn = self.find(c, d), self.find(c, r)
                    def free_pins(lst): return [p for p in range(len(lst) + 2) if p >= len(lst) or lst[p] is None]
                    if rn.kind == '__fork__':
                        rpins = [0] if (len(rn.ins) == 0 or rn.ins[0] is None) else []
                    else:
                        rpins = free_pins(rn.ins)[1:2]      # second free position: leaves a gap
                    dpins = free_pins(dn.outs)[:1] if dn.kind == '__fork__' else free_pins(dn.outs)[1:2]
                    for dp in dpins:
                        for rp in rpins:
                            if rp <= 3 and dp <= 2:
                                ops.append(['xline', list(d), dp, list(r), rp])
        for l in c.lines:
            ops.append(['line_remove', l.index])
        if getattr(c, '_verif_removed', None) is not None:
            ops.append(['remove_again'])      # remove() on a Line object that was removed before: must be a no-op, whatever happened to its pins since
        ios = set(id(n) for n in c.io_nodes)
        for n, ref in zip(nodes, refs):
            if all(x is None for x in n.ins) and all(x is None for x in n.outs) and id(n) not in ios:
                ops.append(['node_remove', list(ref)])
        for n, ref in zip(nodes, refs):
            if id(n) not in ios and len(c.io_nodes) < 2:
                ops.append(['io_append', list(ref)])
        if len(c.io_nodes) >= 1:
            for n, ref in zip(nodes, refs):
                if id(n) not in ios: ops.append(['io_set', 0, list(ref)]); break
        # eliminate_1to1_forks: well-formed when every candidate fork has a driver on pin 0 and its single out is connected
        cands = [n for n in c.forks.values() if id(n) not in ios and len(n.outs) == 1]
        if cands and all(len(n.ins) > 0 and n.ins[0] is not None and n.outs[0] is not None and sum(1 for x in n.ins if x is not None) == 1 for n in cands):
            # the spliced driver line must not be the fork's own output (self loop) - not well-formed
            def rooted(n):
                seen_ = set()
                while n.kind == '__fork__' and id(n) not in ios:
                    if id(n) in seen_: return False
                    seen_.add(id(n))
                    if len(n.ins) == 0 or n.ins[0] is None: return True
                    n = n.ins[0].driver
                return True
            if all(n.ins[0] is not n.outs[0] for n in cands) and all(rooted(n) for n in cands):
                ops.append(['eliminate'])
        for k, im in enumerate(self.impls):
            n_in = len([x for x in im.io_nodes if len(x.ins) == 0])
            n_out = len([x for x in im.io_nodes if len(x.ins) > 0])
            for n, ref in zip(nodes, refs):
                if n.kind == '__fork__' or id(n) in ios: continue
                if any(l is not None and l.reader is n for l in n.outs): continue
                if len(n.ins) <= n_in and len(n.outs) <= n_out and len(nodes) + len(im.nodes) <= self.max_nodes + 4:
                    if not any(nn.name.startswith(n.name + '~') for nn in nodes):
                        ops.append(['substitute', list(ref), k])
        if nodes:
            ops.append(['copy'])
            ops.append(['pickle'])
        return ops

    def apply(self, c, op):
        """Applies op to the real circuit; returns the (possibly new) circuit object."""
        k = op[0]
        if k == 'fork': self.Node(c, op[1]); return c
        if k == 'cell': self.Node(c, op[1], op[2]); return c
        if k == 'get_or_add_fork': c.get_or_add_fork(op[1]); return c
        if k == 'line': self.Line(c, self.find(c, op[1]), self.find(c, op[2])); return c
        if k == 'xline': self.Line(c, (self.find(c, op[1]), op[2]), (self.find(c, op[3]), op[4])); return c
        if k == 'line_remove':
            if op[1] != len(c.lines) - 1: self.swap_deletions += 1
            l = c.lines[op[1]]
            sig = (_key(l.driver), l.driver_pin, _key(l.reader), l.reader_pin)
            l.remove()
            c._verif_removed = (l, sig)       # the most recently removed Line object (harness bookkeeping on the circuit object; lost by copy/pickle)
            return c
        if k == 'remove_again':
            c._verif_removed[0].remove(); return c
        if k == 'node_remove':
            n = self.find(c, op[1])
            if n.index != len(c.nodes) - 1: self.swap_deletions += 1
            n.remove(); return c
        if k == 'io_append': c.io_nodes.append(self.find(c, op[1])); return c
        if k == 'io_set': c.io_nodes[op[1]] = self.find(c, op[2]); return c
        if k == 'eliminate': c.eliminate_1to1_forks(); return c
        if k == 'substitute': c.substitute(self.find(c, op[1]), self.impls[op[2]]); return c
        if k == 'copy': return c.copy()
        if k == 'pickle': return pickle.loads(pickle.dumps(c))
        raise KeyError(k)

    def canon(self, c):
        return canon(c)


def canon(c, strip=False):
    def pins(lst):
        t = [None if l is None else l.index for l in lst]
        if strip:
            while t and t[-1] is None: t.pop()
        return tuple(t)
    nodes = tuple((n.name, n.kind, pins(n.ins), pins(n.outs)) for n in c.nodes)
    lines = tuple((l.driver.index, l.driver_pin, l.reader.index, l.reader_pin) for l in c.lines)
    ios = tuple(n.index for n in c.io_nodes)
    return (nodes, lines, ios)


def invariants(c):
    v = []
    for i, n in enumerate(c.nodes):
        if n.index != i: v.append(('node-index', f'nodes[{i}].index == {n.index}'))
        if n.circuit is not c: v.append(('node-circuit', f'nodes[{i}].circuit is not the circuit'))
    for i, l in enumerate(c.lines):
        if l.index != i: v.append(('line-index', f'lines[{i}].index == {l.index}'))
        if l.circuit is not c: v.append(('line-circuit', f'lines[{i}].circuit is not the circuit'))
    forks = {n.name: n for n in c.nodes if n.kind == '__fork__'}
    cells = {n.name: n for n in c.nodes if n.kind != '__fork__'}
    if set(c.forks) != set(forks) or any(c.forks[k] is not forks[k] for k in forks if k in c.forks):
        v.append(('forks-dict', f'forks dict {sorted(c.forks)} vs fork nodes {sorted(forks)}'))
    if set(c.cells) != set(cells) or any(c.cells[k] is not cells[k] for k in cells if k in c.cells):
        v.append(('cells-dict', f'cells dict {sorted(c.cells)} vs cell nodes {sorted(cells)}'))
    if len(forks) + len(cells) != len(c.nodes): v.append(('names-unique', 'duplicate node names within a flavour'))
    line_ids = {id(l): l for l in c.lines}
    nodeset = {id(n) for n in c.nodes}
    refs = {}
    for n in c.nodes:
        for p, l in enumerate(n.ins):
            if l is None: continue
            if id(l) not in line_ids: v.append(('dangling-ref', f'node {n.name} ins[{p}] references a line that is not in the circuit')); continue
            refs.setdefault(id(l), []).append(('in', n, p))
        for p, l in enumerate(n.outs):
            if l is None: continue
            if id(l) not in line_ids: v.append(('dangling-ref', f'node {n.name} outs[{p}] references a line that is not in the circuit')); continue
            refs.setdefault(id(l), []).append(('out', n, p))
        if n.kind == '__fork__' and any(l is None for l in n.outs):
            v.append(('fork-gap', f'fork {n.name} has a gap in outs: {[None if l is None else l.index for l in n.outs]}'))
    for l in c.lines:
        if id(l.driver) not in nodeset or id(l.reader) not in nodeset:
            v.append(('line-endpoint', f'line {l.index} driver/reader not in the circuit')); continue
        r = refs.get(id(l), [])
        exp = [('out', l.driver, l.driver_pin), ('in', l.reader, l.reader_pin)]
        got = sorted([(a, n.index, p) for a, n, p in r])
        want = sorted([(a, n.index, p) for a, n, p in exp])
        if got != want:
            v.append(('line-refs', f'line {l.index} records driver {l.driver.name}.{l.driver_pin} reader {l.reader.name}.{l.reader_pin} but is referenced from {got}'))
    for n in c.io_nodes:
        if n is None or id(n) not in nodeset: v.append(('io-ref', 'io_nodes references a node that is not in the circuit'))
    st = c.stats
    exp = {'__node__': len(c.nodes), '__cell__': len(cells), '__fork__': len(forks), '__io__': len(c.io_nodes), '__line__': len(c.lines)}
    for k, val in exp.items():
        if st.get(k) != val: v.append(('stats', f'stats[{k}] = {st.get(k)} expected {val}'))
    kinds = {}
    for n in cells.values(): kinds[n.kind] = kinds.get(n.kind, 0) + 1
    for k, val in kinds.items():
        if st.get(k) != val: v.append(('stats', f'stats[{k}] = {st.get(k)} expected {val}'))
    ndff = sum(1 for n in cells.values() if 'dff' in n.kind.lower())
    if st.get('__dff__', 0) != ndff or st.get('__seq__', 0) != ndff + sum(1 for n in cells.values() if 'latch' in n.kind.lower() and 'dff' not in n.kind.lower()):
        v.append(('stats', f'stats dff/seq {st.get("__dff__")}/{st.get("__seq__")}'))
    return v


class Model:
    """Reference netlist: nodes by (flavour, name) with pin lists holding connection ids."""
    def __init__(self):
        self.nodes = {}     # (flavour, name) -> {'kind', 'ins': [cid|None], 'outs': [...]}
        self.conns = {}     # cid -> [dref, dpin, rref, rpin]
        self.order = []     # line order is implementation-defined after deletions; kept as list of cids mirroring swap-with-last
        self.ios = []
        self.next = 0
    def clone(self):
        m = Model()
        m.nodes = {k: {'kind': v['kind'], 'ins': list(v['ins']), 'outs': list(v['outs'])} for k, v in self.nodes.items()}
        m.conns = {k: list(v) for k, v in self.conns.items()}
        m.order = list(self.order); m.ios = list(self.ios); m.next = self.next
        return m
    @staticmethod
    def free(lst): return next((i for i, x in enumerate(lst) if x is None), len(lst))
    @staticmethod
    def put(lst, i, x):
        while len(lst) <= i: lst.append(None)
        lst[i] = x
    def add_line(self, d, dp, r, rp):
        cid = self.next; self.next += 1
        self.conns[cid] = [d, dp, r, rp]
        self.put(self.nodes[d]['outs'], dp, cid); self.put(self.nodes[r]['ins'], rp, cid)
        self.order.append(cid)
    def remove_line(self, cid):
        d, dp, r, rp = self.conns.pop(cid)
        self.nodes[d]['outs'][dp] = None
        if d[0] == 'f':
            del self.nodes[d]['outs'][dp]
            for i, x in enumerate(self.nodes[d]['outs']): self.conns[x][1] = i
        self.nodes[r]['ins'][rp] = None
        i = self.order.index(cid)
        last = self.order.pop()
        if i < len(self.order): self.order[i] = last
    def apply(self, op):
        k = op[0]
        if k in ('fork', 'get_or_add_fork'):
            key = ('f', op[1])
            if key not in self.nodes: self.nodes[key] = {'kind': '__fork__', 'ins': [], 'outs': []}
        elif k == 'cell': self.nodes[('c', op[1])] = {'kind': op[2], 'ins': [], 'outs': []}
        elif k == 'line':
            d, r = tuple(op[1]), tuple(op[2])
            dp = self.free(self.nodes[d]['outs'])
            # implicit pins are resolved one after the other: a self connection sees the driver slot taken
            self.add_line(d, dp, r, self.free(self.nodes[r]['ins']))
        elif k == 'xline': self.add_line(tuple(op[1]), op[2], tuple(op[3]), op[4])
        elif k == 'line_remove': self.remove_line(next(cid for cid, t in self.conns.items() if tuple(t) == op[2]))
        elif k == 'node_remove':
            del self.nodes[tuple(op[1])]
        elif k == 'io_append': self.ios.append(tuple(op[1]))
        elif k == 'io_set': self.put(self.ios, op[1], tuple(op[2]))
        elif k == 'eliminate':
            for key in [x for x in list(self.nodes) if x[0] == 'f']:
                if key not in self.nodes: continue
                n = self.nodes[key]
                if key in self.ios or len(n['outs']) != 1: continue
                cin, cout = n['ins'][0], n['outs'][0]
                _, _, r, rp = self.conns[cout]
                del self.nodes[key]
                # remove out line (the fork is gone: no squeeze bookkeeping needed on it)
                self.conns.pop(cout)
                self.nodes[r]['ins'][rp] = None
                i = self.order.index(cout); last = self.order.pop()
                if i < len(self.order): self.order[i] = last
                self.conns[cin][2], self.conns[cin][3] = r, rp
                self.nodes[r]['ins'][rp] = cin
    def connectivity(self):
        return sorted((d, dp, r, rp) for d, dp, r, rp in self.conns.values())
    def resync(self, c):
        """re-read the model from the real object (after substitute)"""
        self.__init__()
        def key(n): return ('f' if n.kind == '__fork__' else 'c', n.name)
        for n in c.nodes: self.nodes[key(n)] = {'kind': n.kind, 'ins': [None] * len(n.ins), 'outs': [None] * len(n.outs)}
        for l in c.lines:
            cid = self.next; self.next += 1
            self.conns[cid] = [key(l.driver), l.driver_pin, key(l.reader), l.reader_pin]
            self.nodes[key(l.driver)]['outs'][l.driver_pin] = cid
            self.nodes[key(l.reader)]['ins'][l.reader_pin] = cid
            self.order.append(cid)
        self.ios = [key(n) for n in c.io_nodes]


def compare_model(c, m):
    v = []
    def key(n): return ('f' if n.kind == '__fork__' else 'c', n.name)
    real_nodes = {key(n): n for n in c.nodes}
    if set(real_nodes) != set(m.nodes):
        v.append(('model-nodes', f'nodes {sorted(real_nodes)} reference {sorted(m.nodes)}')); return v
    for k, n in real_nodes.items():
        if n.kind != m.nodes[k]['kind']: v.append(('model-kind', f'{k} kind {n.kind} reference {m.nodes[k]["kind"]}'))
    conn = sorted((key(l.driver), l.driver_pin, key(l.reader), l.reader_pin) for l in c.lines)
    if conn != m.connectivity():
        v.append(('model-connectivity', f'connectivity {conn} reference {m.connectivity()}'))
    for k, n in real_nodes.items():
        for side in ('ins', 'outs'):
            real = [None if l is None else (key(l.driver), l.driver_pin, key(l.reader), l.reader_pin) for l in getattr(n, side)]
            ref = [None if x is None else tuple(m.conns[x]) for x in m.nodes[k][side]]
            while real and real[-1] is None: real.pop()
            while ref and ref[-1] is None: ref.pop()
            if real != ref: v.append(('model-pins', f'{k}.{side} = {real} reference {ref}'))
    if [key(n) for n in c.io_nodes] != m.ios: v.append(('model-io', f'io_nodes {[key(n) for n in c.io_nodes]} reference {m.ios}'))
    return v


def _key(n): return ('f' if n.kind == '__fork__' else 'c', n.name)


def model_op(c, op):
    """line_remove addresses a line by index; the model identifies it by its endpoints (read before the removal)"""
    if op[0] == 'line_remove':
        l = c.lines[op[1]]
        return ['line_remove', op[1], (_key(l.driver), l.driver_pin, _key(l.reader), l.reader_pin)]
    return op


def apply_only(sysm, c, m, op):
    mop = model_op(c, op)
    c2 = sysm.apply(c, op)
    if op[0] == 'substitute': m.resync(c2)
    elif op[0] not in ('copy', 'pickle', 'remove_again'): m.apply(mop)
    return c2


def step(sysm, c, m, op):
    """applies op to real object and model; returns (new circuit, violations)"""
    before = canon(c)
    mop = model_op(c, op)
    _ = c.stats, c.s_nodes, list(c.topological_order()) if False else None     # derived views asked before the edit: a cache on the object would now be stale
    pickle.dumps(c)      # serialised before the edit as well: whatever serialisation leaves on the object must not outlive the edit
    c2 = sysm.apply(c, op)
    v = invariants(c2)
    if op[0] not in ('copy', 'pickle'):
        # every state reached by an edit survives a pickle round trip (the object was already serialised once before the edit)
        try:
            rt = pickle.loads(pickle.dumps(c2))
            if canon(rt, strip=True) != canon(c2, strip=True):
                v.append(('pickle-after-edit', f'pickle round trip after {op[0]} (the circuit had been pickled before the edit) gives {canon(rt, strip=True)} instead of {canon(c2, strip=True)}'))
        except Exception as ex:
            v.append(('pickle-after-edit', f'pickle round trip after {op[0]} raised {ex!r}'))
    if op[0] in ('copy', 'pickle'):
        if canon(c2, strip=True) != canon(c, strip=True): v.append((op[0] + '-differs', f'{op[0]} result differs from the original: {canon(c2)} vs {before}'))
        try:
            if not (c2 == c): v.append((op[0] + '-eq', f'{op[0]} result does not compare equal to the original'))
        except Exception as ex:
            v.append((op[0] + '-eq', f'== raised {ex!r}'))
        if c2 is c: v.append((op[0] + '-same-object', 'not a new object'))
        v += invariants(c)   # the original must be untouched
        if canon(c) != before: v.append((op[0] + '-mutated-original', 'original changed'))
    elif op[0] == 'substitute':
        m.resync(c2)
    elif op[0] != 'remove_again':       # a second remove() changes nothing: the model stays as it is
        m.apply(mop)
    if op[0] != 'substitute':
        v += compare_model(c2, m)
    return c2, v


def explore(sysm, start_hist, max_depth, res, found):
    """BFS below start_hist using history replay (live objects are never copied)."""
    from collections import deque
    def build(hist):
        c, m = sysm.initial(), sysm.model_initial()
        for op in hist:
            c = apply_only(sysm, c, m, op)
        return c, m
    seen = set()
    c0, m0 = sysm.initial(), sysm.model_initial()
    for i, op in enumerate(start_hist):      # the start history itself is executed with all checks
        try:
            c0, v = step(sysm, c0, m0, op)
        except Exception as ex:
            v = [('exception-' + type(ex).__name__, traceback.format_exc()[-800:])]
        for what, msg in v:
            key = f'C09/{op[0]}/{what}'
            if key not in found:
                found.add(key)
                res.violation(key, {'history': list(start_hist[:i + 1])}, f'after {list(start_hist[:i + 1])}: {msg}')
        if v: return seen
    prov0 = next((o[0] for o in reversed(start_hist) if o[0] in ('copy', 'pickle')), None)
    seen.add((canon(c0), prov0, type(c0.nodes).__name__, type(c0.lines).__name__, type(c0.io_nodes).__name__, (getattr(c0, '_verif_removed', None) or (None, None))[1]))
    q = deque([list(start_hist)])
    while q:
        hist = q.popleft()
        if len(hist) >= max_depth: continue
        c, m = build(hist)
        for op in sysm.enabled(c):
            c, m = build(hist)   # fresh real object for every transition
            res.transitions += 1; res.validated += 1; res.evals += 1
            try:
                c2, v = step(sysm, c, m, op)
            except Exception as ex:
                v = [('exception-' + type(ex).__name__, traceback.format_exc()[-800:])]
                c2 = None
            if v:
                for what, msg in v:
                    key = f'C09/{op[0]}/{what}'
                    if key not in found:
                        found.add(key)
                        res.violation(key, {'history': hist + [op]}, f'after {hist + [op]}: {msg}')
                continue
            # A copy / an unpickled circuit is structurally equal to its original, but it is a different object built by different
            # code: its futures need not be the same.  The state key therefore carries the provenance (how the object explored
            # from here on came into being) and the container types, so everything is explored again behind a copy and behind a
            # pickle round trip.
            prov = next((o[0] for o in reversed(hist + [op]) if o[0] in ('copy', 'pickle')), None)
            k = (canon(c2), prov, type(c2.nodes).__name__, type(c2.lines).__name__, type(c2.io_nodes).__name__, (getattr(c2, '_verif_removed', None) or (None, None))[1])
            res.count('op_' + op[0])
            if prov: res.count('transitions_behind_' + prov)
            if k in seen: continue
            seen.add(k)
            res.states += 1
            res.sigs.add(common.h64(k))
            q.append(hist + [op])
    return seen


SEEDS = [
    # a 1:1 fork on the first branch of a fan-out fork, and two 1:1 forks in series
    [['cell', 'c0', 'AND2'], ['fork', 'f0'], ['fork', 'f1'], ['line', ['c', 'c0'], ['f', 'f0']], ['line', ['f', 'f0'], ['f', 'f1']], ['line', ['f', 'f0'], ['c', 'c0']], ['line', ['f', 'f1'], ['c', 'c0']]],
    # non-initial start states: a fork with three branches, a cell with a pin gap, a chain through forks
    [['fork', 'f0'], ['cell', 'c0', 'AND2'], ['cell', 'c2', 'OR2'], ['line', ['f', 'f0'], ['c', 'c0']], ['line', ['f', 'f0'], ['c', 'c2']], ['line', ['f', 'f0'], ['c', 'c0']]],
    [['cell', 'c0', 'AND2'], ['fork', 'f0'], ['fork', 'f1'], ['line', ['c', 'c0'], ['f', 'f0']], ['line', ['f', 'f0'], ['f', 'f1']], ['cell', 'c2', 'OR2'], ['line', ['f', 'f1'], ['c', 'c2']]],
    [['cell', 'c1', 'dff'], ['cell', 'c0', 'AND2'], ['xline', ['c', 'c1'], 1, ['c', 'c0'], 1], ['fork', 'f0'], ['line', ['c', 'c0'], ['f', 'f0']], ['io_append', ['f', 'f0']]],
    # cells and forks have separate name spaces: a cell and the fork it drives carry the same name (what every parser produces)
    [['cell', 'c0', 'AND2'], ['fork', 'c0'], ['line', ['c', 'c0'], ['f', 'c0']], ['cell', 'c1', 'OR2'], ['line', ['f', 'c0'], ['c', 'c1']], ['io_append', ['c', 'c0']]],
    [['fork', 'c1'], ['cell', 'c1', 'input'], ['line', ['c', 'c1'], ['f', 'c1']], ['cell', 'c0', 'AND2'], ['line', ['f', 'c1'], ['c', 'c0']], ['line', ['f', 'c1'], ['c', 'c0']], ['io_append', ['c', 'c1']]],
]


def tasks(tier, seed):
    cfgs = {'quick': [dict(nf=2, nc=2, depth=6, split=3, seed_depth=3)],
            'thorough': [dict(nf=2, nc=2, depth=7, split=4, seed_depth=4), dict(nf=3, nc=3, depth=6, split=3, seed_depth=4)]}[tier]
    common.setup_kyupy()
    t = []
    for cfg in cfgs:
        sysm = CircuitSystem(cfg['nf'], cfg['nc'])
        # parent: enumerate all histories up to the split depth (deduplicated on canonical state, no checks here)
        frontier = [[]]
        broken = []
        seen = {canon(sysm.initial())}
        for _ in range(cfg['split']):
            nxt = []
            for hist in frontier:
                try:
                    c, m = sysm.initial(), sysm.model_initial()
                    for op in hist: c = apply_only(sysm, c, m, op)
                    ops = sysm.enabled(c)
                except Exception:
                    broken.append(hist); continue
                for op in ops:
                    try:
                        c, m = sysm.initial(), sysm.model_initial()
                        for o in hist + [op]: c = apply_only(sysm, c, m, o)
                        k = canon(c)
                    except Exception:
                        broken.append(hist + [op]); continue
                    if k in seen: continue
                    seen.add(k)
                    nxt.append(hist + [op])
            frontier = nxt
        frontier += broken
        t += [('sub', cfg['nf'], cfg['nc'], cfg['depth'], h) for h in frontier]
        t.append(('top', cfg['nf'], cfg['nc'], cfg['split']))
    for s in (SEEDS if tier == 'thorough' else SEEDS[:3] + SEEDS[4:]):
        t.append(('sub', 3, 3, len(s) + cfgs[0]['seed_depth'], s))
    return t


def run_task(task):
    res = common.Result()
    found = set()
    sysm = CircuitSystem(task[1], task[2])
    if task[0] == 'top':
        explore(sysm, [], task[3], res, found)
    else:
        explore(sysm, task[4], task[3], res, found)
        if len(res.samples) < 1: res.samples.append({'start_history': task[4], 'depth': task[3]})
    res.count('swap_with_last_deletions', sysm.swap_deletions)
    return res


def replay(case):
    common.setup_kyupy()
    sysm = CircuitSystem(3, 3)
    c, m = sysm.initial(), sysm.model_initial()
    out = []
    hist = case['history']
    for i, op in enumerate(hist):
        try:
            c, v = step(sysm, c, m, op)
        except Exception as ex:
            v = [('exception-' + type(ex).__name__, repr(ex))]
        for what, msg in v:
            out.append({'key': f'C09/{op[0]}/{what}', 'case': case, 'msg': f'step {i} {op}: {msg}'})
        if v: break
    return out


def finish(agg, tier):
    need = ['swap_with_last_deletions', 'op_eliminate', 'op_substitute', 'op_copy', 'op_pickle', 'op_xline', 'op_node_remove', 'op_remove_again']
    missing = [k for k in need if not agg.counters.get(k)]
    if missing: raise common.HarnessError(f'vacuity guard: {missing} zero')
    return {}
