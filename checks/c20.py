"""C20 - DEF data is extracted as written, with wildcards and via arrays expanded.

E1: DEF files rendered from a generator AST (sections present/absent, 0-2 entries each, option subsets,
routing point sequences with wildcards, vias with/without orientation or arrays, several wires per net);
oracle: attribute-by-attribute comparison with the AST.
"""
import itertools
import traceback

from mc import common

PROP = 'C20'
LEVEL = 'exploration'
RULE = ('DEF ASTs: every subset of sections {UNITS, DIEAREA(2|4 points), ROW, TRACKS, VIAS, COMPONENTS, PINS, SPECIALNETS, NETS} in the single/pair deviation scheme; VIAS with every option subset '
        '(<= 2 options all combinations, each single option, all options); COMPONENTS with every orientation; PINS option subsets; routing: every sequence of 2-4 routing items after the first point over '
        '{point with (number|*) x (number|*), via, via with orientation (regular) or DO n BY m STEP dx dy with n,m in 1..3 (special)} up to length 3 (length 4 sampled in quick), 1-2 wires per net (NEW), '
        'unrouted nets, comments; distinct_nontrivial = distinct DEF texts containing routing or vias')
ASSUMPTIONS = ['supported subset as defined by the grammar: non-negative coordinates in points, one design per file',
               'a "*" coordinate in DefNet.wires may be returned resolved or as None (the statement fits both); DefNet.vias must be resolved',
               'via array positions are compared as multisets (expansion order not specified); regular-net wires have no width (None or 0 accepted)',
               'ROW: number of sites / site step are the larger of the two DO / STEP numbers (rows are one-dimensional by the DEF specification)']

ORIENTS = ['N', 'S', 'E', 'W', 'FN', 'FS', 'FE', 'FW']
VIA_OPTS = [('VIARULE', 'rule1'), ('CUTSIZE', (10, 12)), ('LAYERS', ('M1', 'V1', 'M2')), ('CUTSPACING', (5, 6)), ('ENCLOSURE', (1, 2, 3, 4)), ('ROWCOL', (2, 3)), ('PATTERN', '2_F0')]


LAYOUTS = ['plain', 'oneline', 'token_per_line', 'crlf', 'tabs']


def render(ast, comments=False, layout='plain'):
    """layout: the same statements on one line / one token per line / with CRLF line ends / with tabs for blanks"""
    o = []
    if comments: o.append('# generated DEF')
    o += ['VERSION 5.8 ;', 'DIVIDERCHAR "/" ;', 'BUSBITCHARS "[]" ;', f'DESIGN {ast["design"]} ;']
    if ast.get('units') is not None: o.append(f'UNITS DISTANCE MICRONS {ast["units"]} ;')
    if ast.get('diearea'): o.append('DIEAREA ' + ' '.join(f'( {x} {y} )' for x, y in ast['diearea']) + ' ;')
    for r in ast.get('rows', []):
        o.append(f'ROW {r["name"]} {r["site"]} {r["x"]} {r["y"]} {r["orient"]} DO {r["nx"]} BY {r["ny"]} STEP {r["sx"]} {r["sy"]} ;' + (' # row' if comments else ''))
    for t in ast.get('tracks', []):
        o.append(f'TRACKS {t["dir"]} {t["start"]} DO {t["n"]} STEP {t["step"]} LAYER {t["layer"]} ;')
    if 'vias' in ast:
        o.append(f'VIAS {len(ast["vias"])} ;')
        for v in ast['vias']:
            s = f' - {v["name"]}'
            for k, val in v['opts']:
                s += f' + {k} ' + (' '.join(str(x) for x in val) if isinstance(val, tuple) else str(val))
            o.append(s + ' ;')
        o.append('END VIAS')
    if 'comps' in ast:
        o.append(f'COMPONENTS {len(ast["comps"])} ;')
        for c in ast['comps']: o.append(f' - {c["name"]} {c["kind"]} + PLACED ( {c["x"]} {c["y"]} ) {c["orient"]} ;')
        o.append('END COMPONENTS')
    if 'pins' in ast:
        o.append(f'PINS {len(ast["pins"])} ;')
        for p in ast['pins']:
            s = f' - {p["name"]}'
            for k, val in p['opts']:
                if k == 'LAYER': s += f' + LAYER {val[0]} ( {val[1][0]} {val[1][1]} ) ( {val[2][0]} {val[2][1]} )'
                elif k == 'PLACED': s += f' + PLACED ( {val[0]} {val[1]} ) {val[2]}'
                elif k in ('SPECIAL', 'PORT'): s += f' + {k}'
                else: s += f' + {k} {val}'
            o.append(s + ' ;')
        o.append('END PINS')
    def pt(p): return '( ' + ' '.join('*' if v is None else str(v) for v in p) + ' )'
    def route(w, special):
        s = f'{w["layer"]} '
        if special:
            s += f'{w["width"]} '
            if w.get('shape'): s += f'+ SHAPE {w["shape"]} '
        s += pt(w['first'])
        for it in w['items']:
            if it[0] == 'p': s += ' ' + pt(it[1:])
            elif it[0] == 'v': s += f' {it[1]}' + (f' {it[2]}' if it[2] else '')
            elif it[0] == 'va': s += f' {it[1]} DO {it[2][0]} BY {it[2][1]} STEP {it[2][2]} {it[2][3]}'
        return s
    for sec, key, special in (('SPECIALNETS', 'spnets', True), ('NETS', 'nets', False)):
        if key not in ast: continue
        o.append(f'{sec} {len(ast[key])} ;')
        for n in ast[key]:
            s = f' - {n["name"]}'
            for c, p in n['pins']: s += f' ( {c} {p} )'
            if n.get('use'): s += f' + USE {n["use"]}'
            if n.get('ndr'): s += f' + NONDEFAULTRULE {n["ndr"]}'
            if n['wires']:
                s += f'\n   + {n.get("routing", "ROUTED")} ' + '\n     NEW '.join(route(w, special) for w in n['wires'])
            o.append(s + ' ;')
        o.append(f'END {sec}')
    o.append('END DESIGN')
    text = '\n'.join(o) + '\n'
    if layout == 'oneline' and not comments: text = ' '.join(text.split()) + '\n'
    elif layout == 'token_per_line' and not comments: text = '\n'.join(text.split()) + '\n'
    elif layout == 'crlf': text = text.replace('\n', '\r\n')
    elif layout == 'tabs': text = text.replace(' ', '\t')
    return text


def resolve(w):
    """resolved positions: returns (points [(x,y)], vias {name: [(x,y,orient)]})"""
    loc = tuple(w['first'][:2])
    pts = [loc]
    vias = {}
    for it in w['items']:
        if it[0] == 'p':
            loc = (loc[0] if it[1] is None else it[1], loc[1] if it[2] is None else it[2])
            pts.append(loc)
        elif it[0] == 'v':
            vias.setdefault(it[1], []).append((loc[0], loc[1], it[2] or 'N'))
        else:
            n, m, dx, dy = it[2]
            for a in range(n):
                for b in range(m):
                    vias.setdefault(it[1], []).append((loc[0] + a * dx, loc[1] + b * dy, 'N'))
    return pts, vias


def def_case(res, case):
    from kyupy import def_file
    ast = case['ast']
    res.evals += 1
    text = render(ast, case.get('comments', False), case.get('layout', 'plain'))
    if case.get('layout'): res.count('layout_' + case['layout'])
    key = f'C20/{common.h64(text):016x}'
    case = dict(case, text=text)
    def bad(what, msg):
        res.violation(f'{key}/{what}', case, msg + '\n' + text[:1500])
    try:
        d = def_file.parse(text)
        if getattr(d, 'design', None) != ast['design']: bad('design', f'design {getattr(d, "design", None)!r}')
        if getattr(d, 'version', None) != '5.8': bad('version', f'version {getattr(d, "version", None)!r}')
        if ast.get('units') is not None and d.units != [('DISTANCE', 'MICRONS', ast['units'])]: bad('units', f'units {d.units}')
        if ast.get('units') is None and d.units != []: bad('units', f'units {d.units} for a file without UNITS')
        if ast.get('diearea') and [tuple(p) for p in d.diearea] != [tuple(p) for p in ast['diearea']]: bad('diearea', f'diearea {d.diearea}')
        exp_rows = [(r['name'], r['site'], (r['x'], r['y']), r['orient'], max(r['nx'], r['ny']), max(r['sx'], r['sy'])) for r in ast.get('rows', [])]
        if [tuple(r) for r in d.rows] != exp_rows: bad('rows', f'rows {d.rows} expected {exp_rows}')
        exp_tr = [(t['dir'], t['start'], t['n'], t['step'], t['layer']) for t in ast.get('tracks', [])]
        if [tuple(t) for t in d.tracks] != exp_tr: bad('tracks', f'tracks {d.tracks} expected {exp_tr}')
        # vias
        if sorted(d.vias) != sorted(v['name'] for v in ast.get('vias', [])): bad('vias-names', f'vias {sorted(d.vias)}')
        for v in ast.get('vias', []):
            dv = d.vias.get(v['name'])
            if dv is None: continue
            for k, val in v['opts']:
                got = getattr(dv, k.lower(), None)
                exp = list(val) if isinstance(val, tuple) else val
                if got != exp: bad(f'via-{k.lower()}', f'via {v["name"]}.{k.lower()} = {got!r} expected {exp!r}')
            given = {k for k, _ in v['opts']}
            if 'ROWCOL' not in given and dv.rowcol != [1, 1]: bad('via-default', f'rowcol default {dv.rowcol}')
        # components
        exp_c = {c['name']: (c['kind'], (c['x'], c['y']), c['orient']) for c in ast.get('comps', [])}
        if {k: (v[0], tuple(v[1]), v[2]) for k, v in d.components.items()} != exp_c: bad('components', f'components {d.components} expected {exp_c}')
        # pins
        if sorted(d.pins) != sorted(p['name'] for p in ast.get('pins', [])): bad('pins-names', f'pins {sorted(d.pins)}')
        for p in ast.get('pins', []):
            dp = d.pins.get(p['name'])
            if dp is None: continue
            exp_pts = []
            for k, val in p['opts']:
                if k in ('NET', 'DIRECTION', 'USE'):
                    if getattr(dp, k.lower(), None) != val: bad(f'pin-{k.lower()}', f'pin {p["name"]}.{k.lower()} = {getattr(dp, k.lower(), None)!r} expected {val!r}')
                elif k == 'LAYER':
                    got = getattr(dp, 'layer', None)
                    if got is None or got[0] != val[0] or [tuple(x) for x in got[1:]] != [tuple(val[1]), tuple(val[2])]: bad('pin-layer', f'pin {p["name"]}.layer = {got!r} expected {val!r}')
                elif k == 'PLACED': exp_pts.append((val[0], val[1], val[2]))
            if [tuple(x) for x in dp.points] != exp_pts: bad('pin-placed', f'pin {p["name"]}.points = {dp.points} expected {exp_pts}')
        # nets
        for key2, store, special in (('spnets', d.specialnets, True), ('nets', d.nets, False)):
            if sorted(store) != sorted(n['name'] for n in ast.get(key2, [])): bad(f'{key2}-names', f'{key2} {sorted(store)}')
            for n in ast.get(key2, []):
                dn = store.get(n['name'])
                if dn is None: continue
                if [tuple(x) for x in dn.pins] != [tuple(x) for x in n['pins']]: bad(f'{key2}-pins', f'net {n["name"]} pins {dn.pins} expected {n["pins"]}')
                if n.get('use') and getattr(dn, 'use', None) != n['use']: bad(f'{key2}-use', f'net {n["name"]}.use = {getattr(dn, "use", None)!r}')
                if n.get('ndr') and getattr(dn, 'nondefaultrule', None) != n['ndr']: bad(f'{key2}-ndr', f'net {n["name"]}.nondefaultrule = {getattr(dn, "nondefaultrule", None)!r}')
                exp_v = {}
                exp_w = {}
                for w in n['wires']:
                    pts, vias = resolve(w)
                    for vn, locs in vias.items(): exp_v.setdefault(vn, []).extend(locs)
                    raw = [tuple(w['first'][:2])] + [tuple(it[1:3]) for it in w['items'] if it[0] == 'p']
                    if len(raw) > 1: exp_w.setdefault(w['layer'], []).append((w.get('width'), raw, pts))
                kind = 'special' if special else 'regular'
                routed = 'routed' if n['wires'] else 'unrouted'
                try:
                    first_w = repr(dict(dn.wires))      # listings must not change what later calls return
                    gv = {k: [tuple(x) for x in v] for k, v in dict(dn.vias).items() if len(v)}
                    if repr(dict(dn.wires)) != first_w or {k: [tuple(x) for x in v] for k, v in dict(dn.vias).items() if len(v)} != gv:
                        bad(f'{kind}-unstable', f'net {n["name"]}: wires/vias listings differ between repeated accesses')
                except Exception as ex:
                    bad(f'{kind}-{routed}-vias-{type(ex).__name__}', f'net {n["name"]}.vias raised {ex!r}'); gv = None
                if gv is not None and {k: sorted(v) for k, v in gv.items()} != {k: sorted(v) for k, v in exp_v.items()}:
                    bad(f'{kind}-vias', f'net {n["name"]}.vias = {gv} expected {exp_v}')
                try:
                    gw = {k: list(v) for k, v in dict(dn.wires).items() if len(v)}
                except Exception as ex:
                    bad(f'{kind}-{routed}-wires-{type(ex).__name__}', f'net {n["name"]}.wires raised {ex!r}'); gw = None
                if gw is not None:
                    ok = sorted(gw) == sorted(exp_w)
                    if ok:
                        for layer, lst in exp_w.items():
                            got = gw[layer]
                            if len(got) != len(lst): ok = False; break
                            for (gwid, gpts), (wid, raw, pts) in zip(got, lst):
                                if special and gwid != wid: ok = False
                                if not special and gwid not in (None, 0): ok = False
                                if len(gpts) != len(raw): ok = False; break
                                for gp, rp, pp in zip(gpts, raw, pts):
                                    for c in (0, 1):
                                        if rp[c] is not None and gp[c] != rp[c]: ok = False
                                        if rp[c] is None and gp[c] not in (None, pp[c]): ok = False
                    if not ok: bad(f'{kind}-wires', f'net {n["name"]}.wires = {gw} expected per layer (width, raw points, resolved points) {exp_w}')
        if ast.get('nets') or ast.get('spnets'): res.sig(text)
        res.count('cases')
    except Exception as ex:
        res.violation(f'{key}/exception-{type(ex).__name__}', case, traceback.format_exc()[-1000:] + '\n' + text[:1500])


BASE = {
    'design': 'top', 'units': 1000, 'diearea': [(0, 0), (1000, 2000)],
    'rows': [{'name': 'row0', 'site': 'unit', 'x': 0, 'y': 0, 'orient': 'N', 'nx': 10, 'ny': 1, 'sx': 100, 'sy': 0}],
    'tracks': [{'dir': 'X', 'start': 50, 'n': 10, 'step': 100, 'layer': 'M1'}],
    'vias': [{'name': 'via1', 'opts': VIA_OPTS[:3]}],
    'comps': [{'name': 'u1', 'kind': 'NAND2', 'x': 100, 'y': 200, 'orient': 'N'}, {'name': 'u2', 'kind': 'INV', 'x': 300, 'y': 200, 'orient': 'FS'}],
    'pins': [{'name': 'a', 'opts': [('NET', 'a'), ('DIRECTION', 'INPUT'), ('USE', 'SIGNAL'), ('LAYER', ('M2', (10, 0), (30, 20))), ('PLACED', (0, 500, 'N'))]}],
    'spnets': [{'name': 'VDD', 'pins': [('*', 'VDD')], 'use': 'POWER', 'wires': [{'layer': 'M1', 'width': 100, 'shape': 'STRIPE', 'first': (0, 0), 'items': [('p', 1000, None), ('va', 'via1', (2, 3, 10, 20))]}]}],
    'nets': [{'name': 'n1', 'pins': [('u1', 'A'), ('u2', 'Y')], 'use': 'SIGNAL', 'wires': [{'layer': 'M1', 'first': (0, 0), 'items': [('p', 100, None), ('v', 'via1', None), ('p', None, 200)]}]}],
}
SECTIONS = ['units', 'diearea', 'rows', 'tracks', 'vias', 'comps', 'pins', 'spnets', 'nets']


def item_menu(special, k):
    coords = [(10 * (k + 1), None), (None, 20 * (k + 1)), (30 + k, 40 + k), (None, None), (0, None), (None, 0)] + ([(0, 0)] if k % 2 == 0 else [])
    items = [('p', x, y) for x, y in coords]
    items.append(('v', 'via1', None))
    if special:
        for n, m in itertools.product((1, 2, 3), repeat=2):
            if (n + m + k) % 2 == 0 or (n, m) in ((1, 1), (3, 2)): items.append(('va', 'via1', (n, m, 10, 20)))
    else:
        items += [('v', 'via1', 'N'), ('v', 'via2', 'FS'), ('v', 'via1', 'W')]
    return items


def routes(special, maxlen, tier, seed):
    """all item sequences of length 1..maxlen after the first point"""
    for L in range(1, maxlen + 1):
        menus = [item_menu(special, k) for k in range(L)]
        for idx, seq in enumerate(itertools.product(*menus)):
            if L == maxlen and tier == 'quick' and idx % 7 != seed % 7: continue
            yield list(seq)


def tasks(tier, seed):
    t = [('sections',), ('vias',), ('comps_pins',)]
    for special in (True, False):
        for sl in range(8): t.append(('routes', special, sl, 8, tier, seed))
    return t


def copy_ast(**over):
    import copy
    a = copy.deepcopy(BASE)
    a.update(over)
    return a


def run_task(task):
    res = common.Result()
    try:
        if task[0] == 'sections':
            for k in range(0, 3):
                for drop in itertools.combinations(SECTIONS, k):
                    a = copy_ast()
                    for s in drop:
                        if s == 'units': a['units'] = None
                        else: a.pop(s)
                    for comments in (False, True):
                        def_case(res, {'ast': a, 'comments': comments})
                    for layout in LAYOUTS[1:]:
                        def_case(res, {'ast': a, 'layout': layout, 'comments': layout in ('crlf', 'tabs')})
            a = copy_ast(diearea=[(0, 0), (0, 2000), (1000, 2000), (1000, 0)])
            def_case(res, {'ast': a})
            a = copy_ast(rows=BASE['rows'] + [{'name': 'row1', 'site': 'unit', 'x': 0, 'y': 100, 'orient': 'FS', 'nx': 1, 'ny': 7, 'sx': 0, 'sy': 50},
                                             {'name': 'row_one', 'site': 'core', 'x': 3000, 'y': 4800, 'orient': 'FS', 'nx': 1, 'ny': 1, 'sx': 380, 'sy': 0},
                                             {'name': 'row_tap', 'site': 'tap', 'x': 0, 'y': 0, 'orient': 'N', 'nx': 1, 'ny': 1, 'sx': 0, 'sy': 270},
                                             {'name': 'row_two', 'site': 'core', 'x': 10, 'y': 0, 'orient': 'S', 'nx': 2, 'ny': 1, 'sx': 1, 'sy': 0}],
                         tracks=BASE['tracks'] + [{'dir': 'Y', 'start': 0, 'n': 3, 'step': 20, 'layer': 'M2'}])
            def_case(res, {'ast': a})
            for sec in ('vias', 'comps', 'pins', 'spnets', 'nets'):
                def_case(res, {'ast': copy_ast(**{sec: []})})       # empty sections
            # unrouted nets next to routed ones, several nets, several wires per net
            a = copy_ast()
            a['nets'].append({'name': 'n2', 'pins': [('u1', 'B')], 'wires': []})
            a['spnets'].append({'name': 'VSS', 'pins': [('*', 'VSS')], 'use': 'GROUND', 'wires': []})
            def_case(res, {'ast': a})
            # a power net listed in SPECIALNETS (routing) and again in NETS (its cell pins), under the same name: two separate entries
            a = copy_ast()
            a['spnets'].append({'name': 'VSS', 'pins': [('*', 'VSS')], 'use': 'GROUND', 'wires': [{'layer': 'M1', 'width': 60, 'first': (0, 50), 'items': [('p', 900, None)]}]})
            a['nets'].append({'name': 'VDD', 'pins': [('u1', 'VDD'), ('u2', 'VDD')], 'wires': []})
            a['nets'].append({'name': 'VSS', 'pins': [('u1', 'VSS')], 'wires': [{'layer': 'M2', 'first': (7, 7), 'items': [('p', None, 70), ('v', 'via1', None)]}]})
            def_case(res, {'ast': a})
            def_case(res, {'ast': dict(a, nets=a['nets'][::-1], spnets=a['spnets'][::-1])})
            # routing that comes back to a layer after a segment on another one (and after a via-only segment): all runs of a layer count
            a = copy_ast()
            a['nets'].append({'name': 'zig', 'pins': [('u1', 'A'), ('u2', 'Z')], 'wires': [
                {'layer': 'M2', 'first': (10, 10), 'items': [('p', 110, None)]},
                {'layer': 'M3', 'first': (110, 10), 'items': [('p', None, 210), ('v', 'via2', None)]},
                {'layer': 'M2', 'first': (110, 210), 'items': [('p', 310, None), ('p', None, 410)]},
                {'layer': 'M3', 'first': (310, 410), 'items': [('v', 'via2', None)]},
                {'layer': 'M3', 'first': (310, 410), 'items': [('p', 510, None)]},
                {'layer': 'M2', 'first': (510, 410), 'items': [('p', None, 610)]}]})
            a['spnets'].append({'name': 'VZZ', 'pins': [('*', 'VZZ')], 'use': 'POWER', 'wires': [
                {'layer': 'M1', 'width': 60, 'first': (0, 50), 'items': [('p', 900, None)]},
                {'layer': 'M4', 'width': 80, 'shape': 'STRIPE', 'first': (900, 50), 'items': [('p', None, 950)]},
                {'layer': 'M1', 'width': 60, 'first': (900, 950), 'items': [('v', 'via1', None)]},
                {'layer': 'M1', 'width': 40, 'first': (900, 950), 'items': [('p', 100, None)]}]})
            def_case(res, {'ast': a})
            def_case(res, {'ast': a, 'layout': 'oneline'})
            res.count('layer_revisited_cases')
            res.count('shared_net_names')
            a = copy_ast()
            a['nets'][0]['ndr'] = 'rule2'
            a['nets'][0]['wires'].append({'layer': 'M2', 'first': (1, 1), 'items': [('p', 2, None), ('v', 'via1', 'N')]})
            a['spnets'][0]['wires'].append({'layer': 'M2', 'width': 50, 'first': (5, 5), 'items': [('p', None, 100)]})
            def_case(res, {'ast': a})
            for routing in ('COVER', 'FIXED'):
                a = copy_ast(); a['nets'][0]['routing'] = routing
                res.count('other_routing_kinds')     # COVER/FIXED wires are parsed; listing them is not part of the statement
        elif task[0] == 'vias':
            subsets = [()] + [(o,) for o in VIA_OPTS] + list(itertools.combinations(VIA_OPTS, 2)) + [tuple(VIA_OPTS), tuple(VIA_OPTS[::-1])]
            for sub in subsets:
                a = copy_ast(vias=[{'name': 'via1', 'opts': list(sub)}, {'name': 'via2', 'opts': list(sub[::-1])}])
                def_case(res, {'ast': a})
        elif task[0] == 'comps_pins':
            for o in ORIENTS:
                a = copy_ast(comps=[{'name': 'u1', 'kind': 'NAND2', 'x': 100, 'y': 200, 'orient': o}])
                def_case(res, {'ast': a})
            opts = BASE['pins'][0]['opts']
            for k in range(len(opts) + 1):
                for sub in itertools.combinations(opts, k):
                    a = copy_ast(pins=[{'name': 'a', 'opts': list(sub)}, {'name': 'b[3]', 'opts': list(sub[::-1]) + [('SPECIAL', None)]}])
                    def_case(res, {'ast': a})
            a = copy_ast(pins=[{'name': 'a', 'opts': opts + [('PLACED', (7, 9, 'FW'))]}])
            def_case(res, {'ast': a})
        else:
            _, special, sl, nsl, tier, seed = task
            maxlen = 3 if tier == 'quick' else 4
            for idx, seq in enumerate(routes(special, maxlen, tier, seed)):
                if idx % nsl != sl: continue
                w = {'layer': 'M1', 'first': (5, 7), 'items': seq}
                w2 = {'layer': 'M2' if idx % 2 else 'M1', 'first': (1, 2), 'items': seq[::-1] if seq[-1][0] == 'p' or len(seq) > 1 else seq}
                if special:
                    w['width'] = 100; w2['width'] = 60
                    if idx % 3 == 0: w['shape'] = 'STRIPE'
                wires = [w] if idx % 4 else [w, w2]
                # the first item after the first point must be valid for the grammar (any item is)
                key = 'spnets' if special else 'nets'
                a = copy_ast()
                a[key] = [{'name': 'x1', 'pins': [('u1', 'A')], 'use': 'SIGNAL', 'wires': wires}]
                def_case(res, {'ast': a})
                res.count('route_cases_special' if special else 'route_cases_regular')
        if not res.samples:
            res.samples.append({'def': render(BASE)[:1200]})
    except Exception as ex:
        res.violation(f'C20/{task[0]}/task-exception-{type(ex).__name__}', {'kind': 'task'}, traceback.format_exc()[-1500:])
    return res


def replay(case):
    common.setup_kyupy()
    res = common.Result()
    if 'ast' in case: def_case(res, case)
    return res.violations


def finish(agg, tier):
    need = ['cases', 'route_cases_special', 'route_cases_regular', 'layer_revisited_cases']
    missing = [k for k in need if not agg.counters.get(k)]
    if missing: raise common.HarnessError(f'vacuity guard: {missing} zero')
    return {}
