"""C07 - the published level partition is a valid parallel schedule.

E3 schedule exploration on the real code:
 (i)   static partition check (ownership interpretation in level-parallel mode, shared with C08);
 (ii)  every permutation of the ops of every level (<= 6 ops: all n!; larger levels: reversal, all rotations, all adjacent
       transpositions) executed through the real CPU propagation code of LogicSim (m=2, m=8) and WaveSim, memory image after
       the level compared bit for bit;
 (iii) thread orders of every GPU kernel launch under a controlled launcher that first records the thread set of the
       repository's own MockCuda launcher and then runs the same kernel function once per thread in every order
       (<= 6 effective threads: all n!; more: op-major/lane-major x all op orders x lane reversal);
 (iv)  conflict detection from the logged memory accesses of every (op, lane) thread of a level.
"""
import itertools
import traceback

import numpy as np

from mc import common, families as F, lsim, ref, wsim
from mc.netlist import NL, STYLES, build
from mc.wsim import TMAX, TMIN
from checks import wave_common as W
from checks.c02 import lanes as code_lanes
from checks.c08 import check_map

PROP = 'C07'
LEVEL = 'model_checking'
RULE = ('circuits (T5 dangling, T4 deep, T2 slice, T3 small, wide levels, bench-parsed netlists whose output ports are read inside the circuit) x {c_reuse} x {strip_forks}; per circuit/config/level: all permutations of the level\'s ops (n! up to 6 ops, '
        'generating set above) through LogicSim m=2/m=8 and WaveSim CPU code; all orders of the effective (lane, op) threads of each GPU launch (n! up to 6 threads, structured orders above); '
        'read/write sets of every thread from a logging array; static partition check; states = distinct (circuit, config, level) memory images, transitions = schedules executed on the real code')
ASSUMPTIONS = ['compositional argument: if the memory image after level i is the same for every order of level i, starting from the unique image after level i-1, every combination of per-level orders gives the same result',
               'independence argument: if no thread of a level writes an element another thread of that level reads or writes, every instruction-level interleaving equals the sequential order',
               'scratch slots (tmp/tmp2) are write-only garbage for gates without output line and private to the sequential logic simulator; they are excluded from image comparison; '
               'concurrent writes of several output-less gates to the scratch slot are not conflicts',
               'atomic adds to the accumulation buffer commute', 'numba/CUDA absent: Python semantics of the same kernel sources']


def tasks(tier, seed):
    t = []
    for sl in range(8): t.append(('fam', 't5', sl, 8, tier, seed))
    for sl in range(4): t.append(('fam', 't4', sl, 4, tier, seed))
    for sl in range(8): t.append(('fam', 't2', sl, 8, tier, seed))
    t.append(('fam', 'wide', 0, 1, tier, seed))
    for sl in range(4): t.append(('bench', 'cut', sl, 4, tier, seed))
    for sk, gk in F.t3_shards(1, 1, F.T3_KINDS_QUICK): t.append(('fam', ('t3', 1, sk, gk), 0, 1, tier, seed))
    if tier == 'thorough':
        for sk, gk in F.t3_shards(0, 2, F.T3_KINDS_QUICK): t.append(('fam', ('t3', 2, sk, gk), 0, 1, tier, seed))
        t = F.slice_t3_tasks(t, 300)
    return t


def circuits(task):
    fam, sl, nsl, tier, seed = task[1], task[2], task[3], task[4], task[5]
    if fam == 't5':
        g = F.t5()
        if tier == 'quick': g = F.take_slice(g, 10, seed % 10)
    elif fam == 't4':
        g = (nl for nl in F.t4() if nl.n_in + len(nl.states) <= 3)
        if tier == 'quick': g = F.take_slice(g, 4, seed % 4)
    elif fam == 't2':
        g = F.take_slice(W.t2_wave(), 40 if tier == 'quick' else 6, seed % (40 if tier == 'quick' else 6))
    elif fam == 'wide':
        return W.wide()
    else:
        g = F.t3_shard(fam[1], fam[2], fam[3], extra_tap=True)
        if tier == 'quick': g = F.take_slice(g, 6, seed % 6)
    return F.take_slice(g, nsl, sl)


def bench_cut_family():
    """bench netlists over 2 inputs whose first gate (and possibly second) is an output that is read by later gates"""
    kinds = ['and', 'or', 'xor', 'nand']
    for k1 in kinds:
        for k2 in kinds:
            for o2 in ('a', 'b', 'x'):
                yield f'input(a,b) output(x,y) x={k1}(a,b) y={k2}(x,{o2})'
                for k3 in kinds[:2]:
                    for ops3 in (('y', 'x'), ('y', 'a'), ('x', 'b'), ('y', 'y')):
                        for outs in ('x,y,z', 'z,x', 'y,z'):
                            yield f'input(a,b) output({outs}) x={k1}(a,b) y={k2}(x,{o2}) z={k3}({ops3[0]},{ops3[1]})'


def level_perms(k):
    if k <= 1: return []
    if k <= 6: return [p for p in itertools.permutations(range(k)) if p != tuple(range(k))]
    out = [tuple(range(k))[::-1]]
    for r in range(1, k): out.append(tuple((i + r) % k for i in range(k)))
    for i in range(k - 1):
        p = list(range(k)); p[i], p[i + 1] = p[i + 1], p[i]; out.append(tuple(p))
    return out


def run_task(task):
    res = common.Result()
    tier = task[4]
    if task[0] == 'bench':
        g = bench_cut_family()
        if tier == 'quick': g = F.take_slice(g, 6, task[5] % 6)
        for idx, text in enumerate(F.take_slice(g, task[3], task[2])):
            for reuse, strip in itertools.product((False, True), repeat=2):
                case = {'nl': text, 'bench': True, 'style': 0, 'reuse': reuse, 'strip': strip, 'tier': tier}
                try:
                    check_case(res, case)
                except Exception as ex:
                    res.violation(f'C07/{common.h64(case["nl"]):016x}/exception-{type(ex).__name__}', case, traceback.format_exc()[-1500:])
        return res
    for idx, nl in enumerate(circuits(task)):
        si = idx % len(STYLES)
        for reuse, strip in itertools.product((False, True), repeat=2):
            case = {'nl': nl.to_json(), 'style': si, 'reuse': reuse, 'strip': strip, 'tier': tier}
            try:
                check_case(res, case)
            except Exception as ex:
                res.violation(f'C07/{common.h64(case["nl"]):016x}/exception-{type(ex).__name__}', case, traceback.format_exc()[-1500:])
        if len(res.samples) < 1:
            res.samples.append({'nl': nl.to_json(), 'style': si, 'reuse': True, 'strip': True, 'schedule_example': 'level 2 ops in order (2,0,1); GPU threads (lane,op) in order [(1,0),(0,1),(0,0),(1,1)]'})
    return res


def replay(case):
    common.setup_kyupy()
    res = common.Result()
    try: check_case(res, case)
    except Exception as ex:
        res.violation(f'C07/{common.h64(case["nl"]):016x}/exception-{type(ex).__name__}', case, traceback.format_exc()[-1500:])
    return res.violations


class LogArray(np.ndarray):
    """ndarray view that logs scalar element reads and writes (row, column)"""
    def __new__(cls, arr):
        obj = np.asarray(arr).view(cls)
        obj.reads = set(); obj.writes = set()
        return obj
    def __array_finalize__(self, obj):
        self.reads = getattr(obj, 'reads', set()); self.writes = getattr(obj, 'writes', set())
    def __getitem__(self, idx):
        if isinstance(idx, tuple) and len(idx) == 2 and all(isinstance(i, (int, np.integer)) for i in idx):
            self.reads.add((int(idx[0]), int(idx[1])))
            return np.ndarray.__getitem__(self.view(np.ndarray), idx)
        return np.ndarray.__getitem__(self, idx)
    def __setitem__(self, idx, val):
        if isinstance(idx, tuple) and len(idx) == 2 and all(isinstance(i, (int, np.integer)) for i in idx):
            self.writes.add((int(idx[0]), int(idx[1])))
        np.ndarray.__setitem__(self.view(np.ndarray), idx, val)


def scratch_rows(sim):
    rows = set()
    for sp in (sim.tmp_idx, sim.tmp2_idx):
        a = int(sim.c_locs[sp])
        rows |= set(range(a, a + int(sim.c_caps[sp])))
    return sorted(rows)


def check_case(res, case):
    import kyupy
    from kyupy import wave_sim
    from kyupy.logic_sim import LogicSim
    from kyupy.sim import SimOps
    reuse, strip, tier = case['reuse'], case['strip'], case.get('tier', 'quick')
    key = f'C07/{common.h64(case["nl"]):016x}/s{case["style"]}/{int(reuse)}{int(strip)}'
    if case.get('bench'):
        # bench text parsed by the library: output signals that are read inside the circuit as well become port forks with a
        # driver AND readers; the simulators cut the net there (the port's assigned value feeds the readers), so every port or
        # state element with readers is a source of the schedule
        from kyupy import bench
        nl = case['nl']
        c = bench.parse(nl)
        ipos = [i for i, x in enumerate(c.s_nodes) if len(x.outs) > 0]
        opos, spos = [i for i, x in enumerate(c.s_nodes) if len(x.ins) > 0], []
        nv = len(ipos)
        res.count('bench_cut_port_cases')
    else:
        nl = NL.from_json(case['nl'])
        b = build(nl, STYLES[case['style']])
        c = b.circuit
        ipos, opos, spos = b.s_pos()
        nv = nl.n_in + len(nl.states)
    nlines = len(c.lines)

    # ---- (i) static partition check on the published schedule, wave layouts and logic layout
    for capname, caps, cmin in (('u4', 4, 4), ('alt', [4 if i % 2 else 8 for i in range(nlines)] + [4, 4, 4], 4), ('logic', 1, 1)):
        so = SimOps(c, c_caps=caps, c_caps_min=cmin, c_reuse=reuse, strip_forks=strip)
        for what, msg in check_map(so, c, strip, logic_layout=(cmin == 1), parallel=True):
            res.violation(f'{key}/partition-{capname}/{what}', case, msg + f' {nl}')
        res.evals += 1
        res.count('partition_checks')

    # ---- (ii) LogicSim: permutations of every level through the real CPU loop
    for m in (2, 8):
        vals = code_lanes(nv, m)
        if m == 2: vals = [v * 3 for v in vals]
        n = m ** nv
        sim = LogicSim(c, sims=n, m=m, c_reuse=reuse, strip_forks=strip)
        for k, pos in enumerate(ipos + spos): lsim.assign_codes(sim, pos, vals[k])
        sim.s_to_c()
        c0 = sim.c.copy()
        ops_full = np.array(sim.ops, copy=True)
        keep = np.ones(sim.c.shape[0], dtype=bool); keep[scratch_rows(sim)] = False
        for li, (a, bnd) in enumerate(zip(sim.level_starts, sim.level_stops)):
            a, bnd = int(a), int(bnd)
            perms = level_perms(bnd - a)
            if not perms: continue
            sim.c[...] = c0; sim.ops = ops_full[:bnd]; sim.c_prop()
            img = sim.c.copy()
            res.states += 1
            res.sigs.add(common.h64((case['nl'], case['style'], reuse, strip, m, li, img.tobytes())))
            for p in perms:
                ops = ops_full[:bnd].copy(); ops[a:bnd] = ops_full[a:bnd][list(p)]
                sim.c[...] = c0; sim.ops = ops; sim.c_prop()
                res.transitions += 1; res.validated += 1; res.evals += 1
                if not np.array_equal(sim.c[keep], img[keep]):
                    res.violation(f'{key}/logic-m{m}/level{li}', case, f'LogicSim m={m}: executing level {li} in order {p} changes the signal memory (ops {ops_full[a:bnd, :6].tolist()}) {nl}')
                    break
            if bnd - a >= 2: res.count('levels_with_2plus_ops')
        sim.ops = ops_full

    # ---- WaveSim
    n, init, tt, fin = W.stim_for(nv)
    lanes_small = sorted({1 % n, (n // 2 + 1) % n, n - 1})
    d1 = wsim.delay_array(nlines, W.zero_fork_delays(c, ['d' if i % 2 else 'i' for i in range(nlines)]))
    delays = np.concatenate([d1, d1 * 2, d1 * 4])      # three delay datasets, selected per simulation (lane k uses dataset (k+1) mod 3)
    actrl = np.zeros((nlines + 3, 3), dtype=np.int32); actrl[:, 0] = -1
    for l in range(nlines): actrl[l] = (l % 2, 1, 2)
    sel = np.array(lanes_small)
    ns = len(sel)

    def fresh(cuda):
        s = W.make_sim(c, delays, ns, caps=4, reuse=reuse, strip=strip, cuda=cuda, a_ctrl=actrl)
        s.simctl_int[1] = 1
        s.simctl_int[0, :ns] = (np.arange(ns) + 1) % 3
        for kk, pos in enumerate(ipos + spos):
            s.s[0, pos, :ns] = init[kk][sel]; s.s[1, pos, :ns] = tt[kk][sel]; s.s[2, pos, :ns] = fin[kk][sel]
        return s

    ws = fresh(False)
    ws.s_to_c()
    keepw = np.ones(ws.c.shape[0], dtype=bool)
    a_t = int(ws.c_locs[ws.tmp_idx]); keepw[a_t:a_t + int(ws.c_caps[ws.tmp_idx])] = False
    state0 = (ws.c.copy(), ws.abuf.copy())
    images = []     # (c, abuf) after each level in default order
    for li, (a, bnd) in enumerate(zip(ws.level_starts, ws.level_stops)):
        a, bnd = int(a), int(bnd)
        cprev, aprev = (state0 if li == 0 else images[-1])
        ws.c[...] = cprev; ws.abuf[...] = aprev
        wave_sim.level_eval_cpu(ws.ops, a, bnd, ws.c, ws.c_locs, ws.c_caps, ws.abuf, 0, ns, ws.delays, ws.simctl_int, 0)
        images.append((ws.c.copy(), ws.abuf.copy()))
        res.states += 1
        res.sigs.add(common.h64((case['nl'], case['style'], reuse, strip, 'w', li, images[-1][0].tobytes())))
        # (ii) permutations through the real CPU level function
        for p in level_perms(bnd - a):
            ops = np.array(ws.ops, copy=True); ops[a:bnd] = np.asarray(ws.ops)[a:bnd][list(p)]
            cc, ab = cprev.copy(), aprev.copy()
            wave_sim.level_eval_cpu(ops, a, bnd, cc, ws.c_locs, ws.c_caps, ab, 0, ns, ws.delays, ws.simctl_int, 0)
            res.transitions += 1; res.validated += 1; res.evals += 1
            if not np.array_equal(cc[keepw], images[-1][0][keepw]) or not np.array_equal(ab, images[-1][1]):
                res.violation(f'{key}/wave-cpu/level{li}', case, f'WaveSim: executing level {li} in order {p} changes memory or accumulated activity {nl}')
                break
        # (ii') the threads of a level launched as blocks of simulations, upper block first (a launch need not start at simulation 0)
        if ns >= 2:
            h = ns // 2
            cc, ab = cprev.copy(), aprev.copy()
            wave_sim.level_eval_cpu(ws.ops, a, bnd, cc, ws.c_locs, ws.c_caps, ab, h, ns, ws.delays, ws.simctl_int, 0)
            wave_sim.level_eval_cpu(ws.ops, a, bnd, cc, ws.c_locs, ws.c_caps, ab, 0, h, ws.delays, ws.simctl_int, 0)
            res.transitions += 1; res.validated += 1; res.evals += 1
            if not np.array_equal(cc[keepw], images[-1][0][keepw]) or not np.array_equal(ab, images[-1][1]):
                res.violation(f'{key}/wave-cpu-blocks/level{li}', case, f'WaveSim: level {li} executed as simulation blocks [{h},{ns}) then [0,{h}) differs from one launch {nl}')
            res.count('sim_block_launches')
        # (iv) access logging per (op, lane) thread
        acc = []
        for oi in range(a, bnd):
            for lane in range(ns):
                la = LogArray(cprev.copy())
                wave_sim._wave_eval(np.asarray(ws.ops)[oi], la, ws.c_locs, ws.c_caps, lane, ws.delays, ws.simctl_int[:, lane], 0)
                acc.append((oi, lane, la.reads, la.writes, int(np.asarray(ws.ops)[oi][1]) == ws.tmp_idx))
        for x, y in itertools.combinations(acc, 2):
            if x[0] == y[0]: continue
            ww = x[3] & y[3]
            rw = (x[3] & y[2]) | (y[3] & x[2])
            if x[4] and y[4]:   # two gates without output line share the write-only scratch slot; they also read back what they wrote there
                ww = {e for e in ww if keepw[e[0]]}
                rw = {e for e in rw if keepw[e[0]]}
            if ww or rw:
                res.violation(f'{key}/conflict/level{li}', case, f'level {li}: threads (op {x[0]}, lane {x[1]}) and (op {y[0]}, lane {y[1]}) conflict on memory elements {sorted(ww | rw)[:4]} {nl}')
                break
        # every access stays inside the regions the thread's op owns
        for oi, lane, rd, wr, _ in acc:
            op = np.asarray(ws.ops)[oi]
            o = int(op[1])
            wa, wb = int(ws.c_locs[o]), int(ws.c_locs[o]) + int(ws.c_caps[o])
            if any(not (wa <= r < wb and col == lane) for r, col in wr):
                res.violation(f'{key}/write-outside/level{li}', case, f'level {li}: op {oi} lane {lane} writes outside its output region [{wa},{wb}): {sorted(wr)[:6]} {nl}')
        res.count('threads_logged', len(acc))

    # ---- (iii) GPU kernel launches under a controlled launcher
    gs = fresh(True)
    rec = []
    def recorder(*a, **k): rec.append(kyupy.cuda.grid(2))
    rec_launcher = kyupy.cuda.jit(recorder)
    kernel = wave_sim.wave_eval_gpu.func
    gs.s_to_c()
    if not np.array_equal(np.asarray(gs.c), state0[0]):
        res.violation(f'{key}/gpu-assign', case, f'GPU assign kernel result differs from the CPU path {nl}')
    # assign kernel: thread orders (reverse, y-major) of the real kernel function
    assign_k = wave_sim.wave_assign_gpu.func
    grid = gs._grid_dim(gs.sims, gs.s_len)
    del rec[:]; rec_launcher[grid, gs._block_dim]()
    threads_assign = list(rec)
    for oname, order in (('reverse', threads_assign[::-1]), ('ymajor', sorted(threads_assign, key=lambda t: (t[1], t[0])))):
        g2 = fresh(True)
        for (x, y) in order:
            kyupy.cuda.x, kyupy.cuda.y = x, y
            assign_k(g2.c, g2.s, g2.c_locs, g2.ppi_offset)
        res.transitions += 1; res.validated += 1
        if not np.array_equal(np.asarray(g2.c), state0[0]):
            res.violation(f'{key}/gpu-assign-{oname}', case, f'GPU assign kernel under thread order {oname} differs {nl}')
    for li, (a, bnd) in enumerate(zip(gs.level_starts, gs.level_stops)):
        a, bnd = int(a), int(bnd)
        cprev, aprev = (state0 if li == 0 else images[li - 1])
        grid = gs._grid_dim(ns, bnd - a)
        del rec[:]; rec_launcher[grid, gs._block_dim]()
        threads = list(rec)
        eff = [(x, y) for (x, y) in threads if x < ns and y < bnd - a]
        need = {(x, y) for x in range(ns) for y in range(bnd - a)}
        if set(eff) != need or len(eff) != len(need):
            res.violation(f'{key}/gpu-threads/level{li}', case, f'launcher generates thread set {sorted(set(eff))[:8]}.. for {ns} lanes x {bnd - a} ops; missing {sorted(need - set(eff))[:5]} duplicates {len(eff) - len(set(eff))} {nl}')
            continue
        idle = [t for t in threads if t not in need]
        if len(eff) <= 6:
            orders = list(itertools.permutations(eff))
        else:
            orders = []
            for p in ([tuple(range(bnd - a))] + level_perms(bnd - a))[:60]:
                for lane_order in (list(range(ns)), list(range(ns))[::-1]):
                    orders.append([(x, y) for y in p for x in lane_order])      # op-major
                    orders.append([(x, y) for x in lane_order for y in p])      # lane-major
        for order in orders:
            cc, ab = cprev.copy(), aprev.copy()
            for (x, y) in list(order) + idle[:3]:
                kyupy.cuda.x, kyupy.cuda.y = x, y
                kernel(gs.ops, a, bnd, cc, gs.c_locs, gs.c_caps, ab, 0, ns, gs.delays, gs.simctl_int, 0)
            res.transitions += 1; res.validated += 1; res.evals += 1
            if not np.array_equal(cc[keepw], images[li][0][keepw]) or not np.array_equal(ab, images[li][1]):
                res.violation(f'{key}/gpu-order/level{li}', case, f'GPU kernel: thread order {list(order)[:8]}.. of level {li} gives different memory/activity than the CPU level function {nl}')
                break
        if ns >= 2:      # the GPU kernel launched for simulation blocks [h, ns) and [0, h): thread x of a launch is simulation sim_start + x
            h = ns // 2
            cc, ab = cprev.copy(), aprev.copy()
            for s0, s1 in ((h, ns), (0, h)):
                for y in range(bnd - a):
                    for x in range(s1 - s0):
                        kyupy.cuda.x, kyupy.cuda.y = x, y
                        kernel(gs.ops, a, bnd, cc, gs.c_locs, gs.c_caps, ab, s0, s1, gs.delays, gs.simctl_int, 0)
            res.transitions += 1; res.validated += 1; res.evals += 1
            if not np.array_equal(cc[keepw], images[li][0][keepw]) or not np.array_equal(ab, images[li][1]):
                res.violation(f'{key}/gpu-blocks/level{li}', case, f'GPU kernel: level {li} launched for simulation blocks [{h},{ns}) and [0,{h}) differs from the CPU level function {nl}')
        res.count('gpu_launches')
    # capture kernel: thread orders of the GPU capture launch vs the CPU capture of the same memory
    if images:
        final_c = images[-1][0]
        ws.c[...] = final_c
        ws.c_to_s(time=2.0)
        s_cpu = np.array(ws.s, copy=True)
        capk = wave_sim.wave_capture_gpu.func
        grid = gs._grid_dim(gs.sims, gs.s_len)
        del rec[:]; rec_launcher[grid, gs._block_dim]()
        tcap = list(rec)
        rows = list(ws.poppo_s_locs)
        for oname, order in (('default', tcap), ('reverse', tcap[::-1]), ('ymajor', sorted(tcap, key=lambda t: (t[1], t[0])))):
            g2 = fresh(True)
            g2.c[...] = final_c
            for (x, y) in order:
                kyupy.cuda.x, kyupy.cuda.y = x, y
                capk(g2.c, g2.s, g2.c_locs, g2.c_caps, g2.ppo_offset, np.float32(2.0), 0.0, 1)
            res.transitions += 1; res.validated += 1
            if rows and not np.array_equal(np.asarray(g2.s)[3:, rows], s_cpu[3:, rows]):
                res.violation(f'{key}/gpu-capture-{oname}', case, f'GPU capture kernel under thread order {oname} differs from the CPU capture {nl}')
        res.count('gpu_capture_orders')
    res.count('cases')
    if reuse: res.count('cases_with_reuse')


def finish(agg, tier):
    need = ['bench_cut_port_cases', 'sim_block_launches', 'levels_with_2plus_ops', 'threads_logged', 'gpu_launches', 'cases_with_reuse', 'partition_checks']
    missing = [k for k in need if not agg.counters.get(k)]
    if missing: raise common.HarnessError(f'vacuity guard: {missing} zero')
    return {}
