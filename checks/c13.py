"""C13 - capture results and switching-activity counts faithfully summarise waveforms.

W1: capture function on every waveform x capture times; kernel rise/fall counts and overflow soundness on
the C03 kernel space.  W2: circuits x stimuli x delay plans x capacities x capture times (incl. 0.0, -1 and a second capture on the same object, and a capture after a propagation of the first half of the simulations only) x accumulation tables.
"""
import itertools
import traceback

import numpy as np

from mc import common, families as F, ref, wsim
from mc.netlist import NL, STYLES, build
from mc.wsim import TMAX, TMIN
from checks import wave_common as W

PROP = 'C13'
LEVEL = 'exploration'
RULE = ('capture: every waveform (initial value x subset of a 4-point grid, with plain and overflow terminator, capacities 4/8) x capture times on and between grid points, '
        '0.0, negative and the default; kernel: C03 W1 space, rise/fall counts vs decoded output and comparison with a capacity-64 run whenever no overflow is flagged; simulator: family circuits x '
        'stimuli x delay plans x capacities (incl. overflowing) x capture times (incl. 0.0, -1 and a second capture on the same object) x accumulation-control tables (one accumulator, one per line, shared, weights, -1, both table heights); '
        'distinct_nontrivial = distinct (case, captured tuple / accumulator vector) signatures')
ASSUMPTIONS = ['capture with sd = 0 (deterministic); with sd > 0 only captures far from every transition (saturated probability, no sampling) are checked for initial/final value, arrival times and overflow flag',
               'value at time T = initial value xor parity of the transitions strictly before T',
               'memory reuse off for decoding; accumulation expected only for lines that are evaluated (all lines unless forks are stripped)']

ACTRL_KINDS = ['all0', 'own', 'pairs', 'w10', 'w01', 'w23', 'some-1', 'neg', 'neg25']      # weights are integers: negative ones are legal (net level change)


def tasks(tier, seed):
    t = [('cap', cap) for cap in (4, 8)]
    t += W.w1_tasks(tier, seed) + W.w2_tasks(tier, seed)
    return t


def run_task(task):
    res = common.Result()
    try:
        if task[0] == 'cap': run_cap(res, task)
        elif task[0] == 'w1': run_w1(res, task)
        else: run_w2(res, task)
    except Exception as ex:
        res.violation(f'C13/{task[0]}/{task[1]}/exception-{type(ex).__name__}', {'kind': 'task', 'task': repr(task)}, traceback.format_exc()[-1500:])
    return res


def summary(init, times, T):
    """what a waveform encodes: (initial, earliest, latest, final, value just before T)"""
    eat = min(times) if times else float(TMAX)
    lst = max(times) if times else float(TMIN)
    fin = init ^ (len(times) & 1)
    val = init ^ (sum(1 for t in times if t < T) & 1)
    return init, eat, lst, fin, val


def cap_case(res, case):
    from kyupy.wave_sim import wave_capture_cpu, TMAX_OVL
    cap, init, times, ovl, T = case['cap'], case['init'], case['times'], case['ovl'], case['T']
    c = np.full((cap + 4, 3), TMAX, dtype=np.float32)
    e = wsim.encode(init, times)
    if ovl: e[-1] = TMAX_OVL
    c[2:2 + len(e), 1] = e
    c[2 + len(e):, 1] = np.float32(0.5)      # stale data behind the terminator must be ignored
    r = wave_capture_cpu(c, 2, cap, 1, time=np.float32(T) if T is not None else TMAX, sd=0.0, seed=1) if T is not None else wave_capture_cpu(c, 2, cap, 1)
    res.evals += 1
    ei, eeat, elst, efin, eval_ = summary(init, times, T if T is not None else float(TMAX))
    got = (int(bool(r[0])), float(r[1]), float(r[2]), int(r[3]), float(r[4]), int(r[5]), int(r[7]))
    exp = (ei, eeat, elst, efin, float(eval_), eval_, int(ovl))
    key = f'C13/cap/{cap}/{init}:{",".join(str(t) for t in times)}/{"ovl" if ovl else "ok"}/T{T}'
    if got != exp:
        res.violation(key, case, f'capture of waveform init={init} times={times} ovl={ovl} at T={T}: (init, eat, lst, final, acc, val, ovl) = {got} expected {exp}')
    res.sig(('cap', cap, init, tuple(times), ovl, T, got))
    if T is None or T > 4.5:
        # capture with timing uncertainty (sd > 0) far away from every transition: the capture probability is saturated, no sampling is
        # involved, and initial value, earliest arrival, latest stabilisation, final value and overflow flag are what the waveform encodes
        Tf = np.float32(40.0 if T is None else T + 30.0)
        r2 = wave_capture_cpu(c, 2, cap, 1, time=Tf, sd=0.25, seed=1)
        got2 = (int(bool(r2[0])), float(r2[1]), float(r2[2]), int(r2[3]), int(r2[7]))
        exp2 = (ei, eeat, elst, efin, int(ovl))
        if got2 != exp2:
            res.violation(key + '/sd', case, f'capture with sd=0.25 at T={float(Tf)} of waveform init={init} times={times} ovl={ovl}: (init, eat, lst, final, ovl) = {got2} expected {exp2}')
        res.count('captures_with_sd')


def run_cap(res, task):
    cap = task[1]
    for init, times in wsim.waveforms(4):
        if init + len(times) + 1 > cap: continue
        for ovl in (False, True):
            Ts = [None, 0.0, -0.5] + [0.75 + 0.25 * i for i in range(0, 16)]
            for T in Ts:
                cap_case(res, {'kind': 'cap', 'cap': cap, 'init': init, 'times': times, 'ovl': ovl, 'T': T})
    res.samples.append({'kind': 'cap', 'cap': cap, 'init': 1, 'times': [1.0, 3.0], 'ovl': False, 'T': 2.0})


def rises_falls(init, times):
    k = len(times)
    return ((k + 1) // 2, k // 2) if init == 0 else (k // 2, (k + 1) // 2)


def w1_case(res, K, case):
    kind, waves, dn, cap = case['gate'], case['waves'], case['delays'], case['cap']
    a = F.ARITY[kind]
    lut = W.lut_of(kind)
    res.evals += 1
    (init, times, term, ovl), nr, nf, c, _ = K.run(lut, a, [(w[0], w[1]) for w in waves], dn, cap)
    key = f'C13/w1/{kind}/' + '|'.join(f'{w[0]}:{",".join(str(int(t)) for t in w[1])}' for w in waves) + f'/{"".join(dn)}/cap{cap}'
    er, ef = rises_falls(init, times)
    if (nr, nf) != (er, ef):
        res.violation(key + '/counts', case, f'{kind}: kernel reports {nr} rises / {nf} falls, its output waveform init={init} times={times} has {er} / {ef}')
    (i2, t2, _, ovl2), _, _, _, _ = K.run(lut, a, [(w[0], w[1]) for w in waves], dn, 64)
    if ovl2: res.violation(key + '/ovl64', case, 'overflow at capacity 64')
    if not ovl and (init, times) != (i2, t2):
        res.violation(key + '/overflow-soundness', case, f'{kind}: no overflow flagged at capacity {cap} but waveform {times} differs from unlimited-capacity waveform {t2}')
    if ovl: res.count('w1_overflows')
    elif len(t2) + i2 + 1 > cap: res.violation(key + '/overflow-missed', case, f'{kind}: unlimited waveform has {len(t2)} transitions, capacity {cap}, no overflow flag')
    res.sig(('w1', kind, repr(waves), tuple(dn), cap, nr, nf, ovl))


def run_w1(res, task):
    _, kind, T, caps, tier, seed = task
    a = F.ARITY[kind]
    K = W.Kernel(cap_in=8)
    wf = wsim.waveforms(T)
    for wi, waves in enumerate(itertools.product(wf, repeat=a)):
        for di, dn in enumerate(W.w1_delay_combos(a, tier, wi)):
            if tier == 'quick' and (wi + di) % 2 != seed % 2: continue
            for cap in caps:
                if cap == 16: continue
                w1_case(res, K, {'kind': 'w1', 'gate': kind, 'waves': [[w[0], w[1]] for w in waves], 'delays': list(dn), 'cap': cap})
    res.samples.append({'kind': 'w1', 'gate': kind, 'waves': [[0, [1.0, 2.0, 3.0]]] * a, 'delays': ['d'] * a, 'cap': 4})


def make_actrl(kind, nlines, height, idx):
    a = np.zeros((height, 3), dtype=np.int32)
    a[:, 0] = -1
    for l in range(nlines):
        if kind == 'all0': a[l] = (0, 1, 1)
        elif kind == 'own': a[l] = (l, 1, 1)
        elif kind == 'pairs': a[l] = (l // 2, 1, 1)
        elif kind == 'w10': a[l] = (l % 2, 1, 0)
        elif kind == 'w01': a[l] = (0, 0, 1)
        elif kind == 'w23': a[l] = (l % 3, 2, 3)
        elif kind == 'some-1': a[l] = (-1, 5, 7) if (l + idx) % 2 else (1, 1, 2)
        elif kind == 'neg': a[l] = (l, 1, -1)
        elif kind == 'neg25': a[l] = (l % 2, 2, -5)
    return a


def w2_case(res, case):
    nl = NL.from_json(case['nl'])
    res.evals += 1
    key = f'C13/w2{"f" if case.get("strip") else ""}/{common.h64(case["nl"]):016x}/s{case["style"]}/{"".join(case["plan"])}/{case["capname"]}/{case["actrl"]}{case["height"]}/T{case["T"]}'
    b = build(nl, STYLES[case['style']])
    c = b.circuit
    ipos, opos, spos = b.s_pos()
    nv = nl.n_in + len(nl.states)
    n, init, tt, fin = W.stim_for(nv)
    nlines = len(c.lines)
    delays = wsim.delay_array(nlines, case['plan'])
    height = nlines if case['height'] == 'doc' else nlines + 3
    actrl = make_actrl(case['actrl'], nlines, height, case['style'])

    strip = bool(case.get('strip', False))
    from checks.c08 import root_stems
    stems = root_stems(c) if strip else {}

    def run(caps, with_actrl=True, cuda=False):
        sim = W.make_sim(c, delays, n, caps=caps, a_ctrl=actrl if with_actrl else None, strip=strip, cuda=cuda)
        W.assign(sim, ipos + spos, init, tt, fin)
        sim.s_to_c(); sim.c_prop()
        if case['T'] is None: sim.c_to_s()
        else: sim.c_to_s(time=case['T'])
        return sim
    sim = run(case['caps'])
    big = run(64, with_actrl=False)
    T = float(TMAX) if case['T'] is None else case['T']
    for j, pos in enumerate(opos + spos):
        node = (b.out_nodes + b.st_nodes)[j]
        li = stems.get(node.ins[0].index, node.ins[0].index)     # with stripped forks the captured line stands for its root stem
        for lane in range(n):
            ini, times, term, ovl = wsim.decode(sim.c, int(sim.c_locs[li]), int(sim.c_caps[li]), lane)
            ei, eeat, elst, efin, ev = summary(ini, times, T)
            got = (float(sim.s[3, pos, lane]), float(sim.s[4, pos, lane]), float(sim.s[5, pos, lane]), float(sim.s[6, pos, lane]), float(sim.s[7, pos, lane]), float(sim.s[8, pos, lane]), float(sim.s[10, pos, lane]))
            exp = (float(ei), eeat, elst, float(efin), float(ev), float(ev), float(ovl))
            if got != exp:
                res.violation(key + f'/capture-{j}', case, f'output {j} lane {lane}: waveform init={ini} times={times} ovl={ovl} T={T}: s[3,4,5,6,7,8,10] = {got} expected {exp} {nl}'); break
            if not ovl:
                bi, bt, _, bo = wsim.decode(big.c, int(big.c_locs[li]), int(big.c_caps[li]), lane)
                if (bi, bt) != (ini, times):
                    res.violation(key + f'/overflow-soundness-{j}', case, f'output {j} lane {lane}: overflow indicator clear but waveform {times} differs from capacity-64 waveform {bt} {nl}'); break
            else:
                res.count('w2_overflow_flags')
    # a second capture on the same simulator object with another capture time
    T2 = 0.0 if (case['T'] is None or case['T'] > 2) else 2.5     # capture time 0.0 (the default launch time) is a legitimate time, too
    sim.c_to_s(time=T2)
    for j, pos in enumerate(opos + spos):
        node = (b.out_nodes + b.st_nodes)[j]
        li = stems.get(node.ins[0].index, node.ins[0].index)
        for lane in range(0, n, 7):
            ini, times, term, ovl = wsim.decode(sim.c, int(sim.c_locs[li]), int(sim.c_caps[li]), lane)
            ei, eeat, elst, efin, ev = summary(ini, times, T2)
            got = (float(sim.s[3, pos, lane]), float(sim.s[4, pos, lane]), float(sim.s[5, pos, lane]), float(sim.s[6, pos, lane]), float(sim.s[7, pos, lane]), float(sim.s[8, pos, lane]), float(sim.s[10, pos, lane]))
            exp = (float(ei), eeat, elst, float(efin), float(ev), float(ev), float(ovl))
            if got != exp:
                res.violation(key + f'/recapture-{j}', case, f'output {j} lane {lane}: second capture at T={T2}: s[3,4,5,6,7,8,10] = {got} expected {exp} {nl}'); break
    # accumulated switching activity
    exp_abuf = np.zeros_like(np.asarray(sim.abuf))
    evaluated = {int(o) for o in np.asarray(sim.ops)[:, 1]}
    for l in c.lines:
        a_idx, wr, wf_ = (int(x) for x in actrl[l.index])
        if a_idx < 0 or l.index not in evaluated: continue
        for lane in range(n):
            ini, times, _, _ = wsim.decode(sim.c, int(sim.c_locs[l.index]), int(sim.c_caps[l.index]), lane)
            r, f = rises_falls(ini, times)
            exp_abuf[a_idx, lane] += r * wr + f * wf_
    got_abuf = np.asarray(sim.abuf)
    if got_abuf.shape != exp_abuf.shape or not np.array_equal(got_abuf, exp_abuf):
        bad = np.argwhere(got_abuf != exp_abuf)[0].tolist() if got_abuf.shape == exp_abuf.shape else 'shape'
        res.violation(key + '/abuf', case, f'accumulated activity differs at {bad}: got {got_abuf[tuple(bad)] if bad != "shape" else got_abuf.shape} expected {exp_abuf[tuple(bad)] if bad != "shape" else exp_abuf.shape} {nl}')
    # the GPU-kernel path accumulates through atomic adds: same weighted counts
    if (common.h64(case['nl']) + len(case['actrl'])) % 2 == 0:
        gsim = run(case['caps'], cuda=True)
        g_abuf = np.asarray(gsim.abuf)
        if g_abuf.shape != exp_abuf.shape or not np.array_equal(g_abuf, exp_abuf):
            bad = np.argwhere(g_abuf != exp_abuf)[0].tolist() if g_abuf.shape == exp_abuf.shape else 'shape'
            res.violation(key + '/abuf-gpu', case, f'GPU path: accumulated activity differs at {bad}: got {g_abuf[tuple(bad)] if bad != "shape" else g_abuf.shape} expected {exp_abuf[tuple(bad)] if bad != "shape" else exp_abuf.shape} {nl}')
        res.count('w2_gpu_abuf')
    if exp_abuf.any(): res.count('w2_nonzero_abuf')
    if (exp_abuf < 0).any(): res.count('w2_negative_abuf')
    # a propagation restricted to the first k simulations (new stimulus: lanes reversed), then a capture: the capture describes the
    # stored output waveforms of ALL simulations, also of those the last propagation left alone
    k = max(1, n // 2)
    W.assign(sim, ipos + spos, [x[::-1].copy() for x in init], [x[::-1].copy() for x in tt], [x[::-1].copy() for x in fin])
    sim.s_to_c(); sim.c_prop(sims=k); sim.c_to_s()
    for j, pos in enumerate(opos + spos):
        node = (b.out_nodes + b.st_nodes)[j]
        li = stems.get(node.ins[0].index, node.ins[0].index)
        for lane in sorted({0, k - 1, k % n, (k + 1) % n, n - 1}):
            ini, times, term, ovl = wsim.decode(sim.c, int(sim.c_locs[li]), int(sim.c_caps[li]), lane)
            ei, eeat, elst, efin, ev = summary(ini, times, float(TMAX))
            got = (float(sim.s[3, pos, lane]), float(sim.s[4, pos, lane]), float(sim.s[5, pos, lane]), float(sim.s[6, pos, lane]), float(sim.s[7, pos, lane]), float(sim.s[8, pos, lane]), float(sim.s[10, pos, lane]))
            exp = (float(ei), eeat, elst, float(efin), float(ev), float(ev), float(ovl))
            if got != exp:
                res.violation(key + f'/partial-prop-capture-{j}', case, f'after c_prop(sims={k}) of {n}: output {j} lane {lane}: waveform init={ini} times={times} ovl={ovl}: s[3,4,5,6,7,8,10] = {got} expected {exp} {nl}'); break
    res.count('w2_partial_propagations')
    res.sig((case['nl'], case['style'], tuple(case['plan']), case['capname'], case['actrl'], case['T'], got_abuf.tobytes()))
    res.count('w2_cases')
    if strip: res.count('w2_strip_cases')


def run_w2(res, task):
    tier, seed = task[4], task[5]
    Ts = [None, 0.75, 1.0, 2.0, 3.25, 4.0, 6.0, 0.0, -1.0]
    for idx, nl in enumerate(W.w2_circuits(task)):
        if tier == 'quick' and idx % 2 != seed % 2 and task[1] != 'wide': continue
        si = (idx // 2 if tier == 'quick' else idx) % len(STYLES)
        b = build(nl, STYLES[si])
        nlines = len(b.circuit.lines)
        dangling = any(f'g{k}' not in nl.readers() for k in range(len(nl.gates)))
        dev = list(wsim.delay_plans(nlines, 1))[1:]
        plans = [['u'] * nlines, ['d'] * nlines, dev[(idx * 7 + seed) % len(dev)]]
        combos = []
        for pi, plan in enumerate(plans):
            nio = len(b.circuit.s_nodes)
            for capname, caps in (('u4', 4), ('u16', 16), ('alt', [4 if (i + idx) % 2 else 8 for i in range(nlines)] + [4, 4, 4]),
                                  ('low4', [4 if i < nio else 16 for i in range(nlines)] + [4, 4, 4])):      # small capacities exactly on the lines whose index is a port/state position
                combos.append((plan, capname, caps))
        for ci, (plan, capname, caps) in enumerate(combos):
            if tier == 'quick' and ci % 3 != (idx + seed) % 3: continue
            ak = ACTRL_KINDS[(idx + ci) % len(ACTRL_KINDS)]
            T = Ts[(idx + 2 * ci) % len(Ts)]
            height = 'doc' if (idx + ci) % 2 == 0 else 'plus3'
            case = {'kind': 'w2', 'nl': nl.to_json(), 'style': si, 'plan': plan, 'caps': caps, 'capname': capname, 'actrl': ak, 'height': height, 'T': T, 'strip': bool((idx + ci) % 3 == 1)}
            if height == 'doc' and dangling: res.count('w2_doc_height_with_dangling')
            try:
                w2_case(res, case)
            except Exception as ex:
                res.violation(f'C13/w2/{common.h64(case["nl"]):016x}/{height}/exception-{type(ex).__name__}', case, traceback.format_exc()[-1500:])
        if len(res.samples) < 1:
            res.samples.append({'kind': 'w2', 'nl': nl.to_json(), 'style': si, 'plan': plans[1], 'capname': 'u4', 'actrl': 'w23', 'height': 'doc', 'T': 2.0})


def replay(case):
    common.setup_kyupy()
    res = common.Result()
    if case['kind'] == 'cap': cap_case(res, case)
    elif case['kind'] == 'w1': w1_case(res, W.Kernel(8), case)
    elif case['kind'] == 'w2':
        try: w2_case(res, case)
        except Exception as ex:
            res.violation(f'C13/w2/{common.h64(case["nl"]):016x}/{case["height"]}/exception-{type(ex).__name__}', case, traceback.format_exc()[-1500:])
    return res.violations


def finish(agg, tier):
    need = ['captures_with_sd', 'w1_overflows', 'w2_overflow_flags', 'w2_nonzero_abuf', 'w2_negative_abuf', 'w2_gpu_abuf', 'w2_cases', 'w2_strip_cases', 'w2_partial_propagations']
    missing = [k for k in need if not agg.counters.get(k)]
    if missing: raise common.HarnessError(f'vacuity guard: {missing} zero')
    return {}
