"""C17 - graph traversals and name lookups are complete and correctly ordered.

Small-scope complete enumeration of graphs (node = combinational or state element, explicit input
pins 0..2 so that every pattern of unconnected pins occurs) x all origin sets, plus name pools for
io_locs / s_locs.
"""
import itertools
import re
import traceback

from mc import common

PROP = 'C17'
LEVEL = 'exploration'
RULE = ('all graphs with N nodes (each combinational or dff or latch) and up to L lines, every line on an explicit reader pin 0..2 '
        '(unconnected pin patterns), driver pins consecutive or shifted by one (unconnected first output), acyclic through '
        'combinational nodes; x all 2^N origin sets for fanin; quick N<=3,L<=5 and N=4,L<=3; plus all name pools (<=5 names from '
        'schemes p, p[i], p_i, pi, p[i][j], p_i_j, pi[j] over indices {0,1,2,10}) x declaration orders x all prefixes; '
        'distinct_nontrivial = distinct (graph, yielded order) / (names, prefix, result) signatures')
ASSUMPTIONS = ['traversal code only distinguishes state elements (kind contains dff/latch) from other nodes, so two node kinds span all behaviours',
               'fanin: state elements as path sources, and nodes reachable only through a state element, may or may not be yielded (both readings of "combinational path" accepted); exact for combinational graphs',
               'io_locs/s_locs: prefixes without regex metacharacters (D8); a scalar and a bus with the same base name, or mixed index depth under one base, are outside the documented behaviour and not generated']


def tasks(tier, seed):
    t = []
    if tier == 'quick':
        plan = [(1, 2), (2, 4), (3, 5), (4, 3)]
    else:
        plan = [(1, 2), (2, 6), (3, 6), (4, 5), (5, 3)]
    for n, L in plan:
        for kinds in itertools.product('cdl', repeat=n):
            if kinds.count('l') > 1 and n > 2: continue  # latch and dff are treated alike; keep one latch at most in larger graphs
            t.append(('graphs', n, L, ''.join(kinds), tier))
    if tier == 'quick':
        sl = seed % 7
        for kinds in itertools.product('cd', repeat=4):
            t.append(('graphs4x', 4, 4, ''.join(kinds), sl, 7))
    for shard in range(16):
        t.append(('names', shard, 16, tier))
    for name in BIG: t.append(('big', name, tier))
    return t


# graphs beyond every small-integer width: fan-out, fan-in, depth and node count above 256 (and 65536 nodes in thorough)
BIG = ['star', 'star_dff', 'funnel', 'chain', 'ladder', 'grid']


def big_graph(name, K):
    """(kinds, edges, origin sets) - origins are chosen so that the cone includes / excludes the wide or deep part"""
    if name in ('star', 'star_dff'):      # one node read by K nodes, itself fed by a source
        kinds = 'c' + ('d' if name == 'star_dff' else 'c') + 'c' * K
        edges = [(0, 1, 0)] + [(1, 2 + i, 0) for i in range(K)]
        return kinds, edges, [[2 + K - 1], [2, 2 + K // 2], [1], [0]]
    if name == 'funnel':                  # K sources into the pins of one node
        kinds = 'c' * K + 'cc'
        edges = [(i, K, i) for i in range(K)] + [(K, K + 1, 0)]
        return kinds, edges, [[K + 1], [K], [0, K - 1]]
    if name == 'chain':                   # K levels
        kinds = 'c' * (K + 1)
        return kinds, [(i, i + 1, 0) for i in range(K)], [[K], [K // 2], [0]]
    if name == 'ladder':                  # two chains with rungs: every node has fan-in 2, depth K
        kinds = 'c' * (2 * K)
        edges = []
        for i in range(1, K):
            edges += [(2 * (i - 1), 2 * i, 0), (2 * (i - 1) + 1, 2 * i, 1), (2 * (i - 1), 2 * i + 1, 0), (2 * (i - 1) + 1, 2 * i + 1, 1)]
        return kinds, edges, [[2 * K - 1], [K]]
    if name == 'grid':                    # many nodes, shallow: K independent 2-node chains
        kinds = 'c' * (2 * K)
        return kinds, [(2 * i, 2 * i + 1, 0) for i in range(K)], [[2 * K - 1], [1, 3]]
    raise KeyError(name)


# ---------------------------------------------------------------- graphs

def candidate_edges(kinds):
    n = len(kinds)
    return [(d, r, p) for d in range(n) for r in range(n) for p in range(3)]


def comb_acyclic(n, kinds, edges):
    """no cycle through combinational nodes only (edges into state elements are cut)"""
    adj = {i: [] for i in range(n)}
    for d, r, _ in edges:
        if kinds[r] == 'c': adj[d].append(r)
    state = [0] * n
    def dfs(u):
        state[u] = 1
        for v in adj[u]:
            if kinds[u] != 'c' and False: pass
            if state[v] == 1: return False
            if state[v] == 0 and not dfs(v): return False
        state[u] = 2
        return True
    # a cycle needs all its nodes' incoming cycle edges to be uncut: the readers on the cycle must be comb
    for i in range(n):
        if state[i] == 0 and not dfs(i): return False
    return True


def gen_graphs(n, L, kinds):
    cands = candidate_edges(kinds)
    for k in range(0, L + 1):
        for edges in itertools.combinations(cands, k):
            used = set()
            ok = True
            for d, r, p in edges:
                if (r, p) in used: ok = False; break
                used.add((r, p))
            if not ok: continue
            if not comb_acyclic(n, kinds, edges): continue
            yield edges, False
            # variant: the first node that has outputs leaves its output pin 0 unconnected
            if k and k <= 3:
                yield edges, True


def build_graph(kinds, edges, shift):
    from kyupy.circuit import Circuit, Node, Line
    c = Circuit('g')
    kindname = {'c': 'AND3', 'd': 'dff', 'l': 'latch'}
    nodes = [Node(c, f'n{i}', kindname[k]) for i, k in enumerate(kinds)]
    nextpin = [0] * len(kinds)
    if shift and edges:
        nextpin[edges[0][0]] = 1
    for d, r, p in edges:
        Line(c, (nodes[d], nextpin[d]), (nodes[r], p))
        nextpin[d] += 1
    return c, nodes


def is_state(k): return k != 'c'


def check_graph(res, case):
    kinds, edges, shift = case['kinds'], [tuple(e) for e in case['edges']], case['shift']
    n = len(kinds)
    res.evals += 1
    key = f'C17/topo/{kinds}/{"".join(f"{d}{r}{p}" for d, r, p in edges)}{"s" if shift else ""}' if 'big' not in case else f'C17/topo/big-{case["big"][0]}-{case["big"][1]}'
    if case.get('prev_edges') is not None: key += '/rewired'
    import sys
    if sys.getrecursionlimit() < 20000: sys.setrecursionlimit(20000)
    try:
        if case.get('prev_edges') is not None:
            # the same circuit object first holds another wiring and answers all queries for it; then it is re-wired in place through the
            # public API (all lines removed, the same number of new lines added): answers must describe the present graph
            from kyupy.circuit import Line
            c, nodes = build_graph(kinds, [tuple(e) for e in case['prev_edges']], False)
            list(c.topological_order()); list(c.topological_order_with_level()); list(c.topological_line_order()); list(c.reversed_topological_order())
            list(c.fanin([nodes[-1]]))
            for l in list(c.lines)[::-1]: l.remove()
            nextpin = [0] * n
            if shift and edges: nextpin[edges[0][0]] = 1
            for d, r, p in edges:
                Line(c, (nodes[d], nextpin[d]), (nodes[r], p)); nextpin[d] += 1
            res.count('rewired_in_place')
        else:
            c, nodes = build_graph(kinds, edges, shift)
        n_in = [0] * n; n_out = [0] * n
        for d, r, p in edges: n_in[r] += 1; n_out[d] += 1
        src = [i for i in range(n) if n_in[i] == 0 or is_state(kinds[i])]
        snk = [i for i in range(n) if n_out[i] == 0 or is_state(kinds[i])]
        # ---- forward order
        order = [x.index for x in c.topological_order()]
        if sorted(order) != list(range(n)):
            res.violation(key + '/forward-not-permutation', case, f'topological_order yielded {order} for {n} nodes; edges {edges} kinds {kinds}')
        else:
            pos = {v: i for i, v in enumerate(order)}
            for d, r, p in edges:
                if not is_state(kinds[r]) and pos[d] > pos[r]:
                    res.violation(key + '/forward-order', case, f'driver {d} after reader {r}: {order}')
            srcset = set(src)
            if len(srcset) < n and max(pos[s] for s in src) > min(pos[o] for o in range(n) if o not in srcset):
                res.violation(key + '/forward-sources-first', case, f'sources {src} not first: {order}')
        # ---- levels
        lv = {}
        preds_of = {i: [] for i in range(n)}
        succ_edges = {i: [] for i in range(n)}
        for e in edges: preds_of[e[1]].append(e[0]); succ_edges[e[0]].append(e)
        def level(i, depth=0):
            if i in lv: return lv[i]
            if n_in[i] == 0 or is_state(kinds[i]): lv[i] = 0
            else: lv[i] = 1 + max(level(d) for d in preds_of[i])
            return lv[i]
        got = [(x.index, int(l)) for x, l in c.topological_order_with_level()]
        if sorted(x for x, _ in got) != list(range(n)):
            res.violation(key + '/level-not-permutation', case, f'with_level yielded {got}')
        else:
            for i, l in got:
                if l != level(i):
                    res.violation(key + '/level', case, f'node {i} level {l} expected {level(i)}; edges {edges} kinds {kinds}')
        # ---- line order
        lines = [(l.driver.index, l.reader.index, l.reader_pin) for l in c.topological_line_order()]
        if sorted(lines) != sorted(edges):
            res.violation(key + '/lines-not-permutation', case, f'line order yielded {lines} expected a permutation of {edges}')
        else:
            lpos = {e: i for i, e in enumerate(lines)}
            for e in edges:
                if is_state(kinds[e[1]]): continue
                for f in succ_edges[e[1]]:
                    if lpos[e] > lpos[f]:
                        res.violation(key + '/lines-order', case, f'line {e} after its successor {f}')
        # ---- reversed order
        rorder = [x.index for x in c.reversed_topological_order()]
        if sorted(rorder) != list(range(n)):
            res.violation(key + '/reverse-not-permutation', case, f'reversed_topological_order yielded {rorder}; edges {edges} kinds {kinds}')
        else:
            rpos = {v: i for i, v in enumerate(rorder)}
            for d, r, p in edges:
                if not is_state(kinds[d]) and rpos[r] > rpos[d]:
                    res.violation(key + '/reverse-order', case, f'reader {r} after driver {d}: {rorder}')
            snkset = set(snk)
            if len(snkset) < n and max(rpos[s] for s in snk) > min(rpos[o] for o in range(n) if o not in snkset):
                res.violation(key + '/reverse-sinks-first', case, f'sinks {snk} not first: {rorder}')
        # ---- several traversals of one circuit alive at the same time (generators): each is what it is alone
        if 'big' not in case:
            pairs = list(zip(c.reversed_topological_order(), c.reversed_topological_order()))
            if [a.index for a, _ in pairs] != rorder or [b_.index for _, b_ in pairs] != rorder:
                res.violation(key + '/reverse-lockstep', case, f'two reversed_topological_order iterations in lock step yield {[(a.index, b_.index) for a, b_ in pairs]}, alone {rorder}')
            nested = []
            for x in c.reversed_topological_order():
                nested.append(x.index)
                list(c.fanin([x])); next(iter(c.topological_order()), None)
            if nested != rorder:
                res.violation(key + '/reverse-nested', case, f'reversed_topological_order with fanin() and topological_order() called inside the loop yields {nested}, alone {rorder}')
            fw = [a.index for a, _ in zip(c.topological_order(), c.topological_order())]
            if fw != order:
                res.violation(key + '/forward-lockstep', case, f'two topological_order iterations in lock step yield {fw}, alone {order}')
            res.count('concurrent_traversals')
        res.sig((kinds, edges, shift, tuple(order), tuple(rorder)) if 'big' not in case else tuple(case['big']))
        # ---- fan-in for all origin sets
        all_comb = all(k == 'c' for k in kinds)
        preds = preds_of
        for mask in (range(1, 1 << n) if 'origin_sets' not in case else range(len(case['origin_sets']))):
            origins = [i for i in range(n) if (mask >> i) & 1] if 'origin_sets' not in case else list(case['origin_sets'][mask])
            any_set = set(origins); stack = list(origins)
            while stack:
                u = stack.pop()
                for d in preds[u]:
                    if d not in any_set: any_set.add(d); stack.append(d)
            comb_set = set(origins); stack = list(origins)
            while stack:
                u = stack.pop()
                if u not in origins and is_state(kinds[u]): continue
                for d in preds[u]:
                    if is_state(kinds[d]): continue      # state elements as path sources: optional
                    if d not in comb_set: comb_set.add(d); stack.append(d)
            # a state-element origin: its own fan-in is not combinationally connected to it
            comb_req = set()
            for o in origins: comb_req.add(o)
            stack = [o for o in origins if not is_state(kinds[o])]
            seen = set(stack)
            while stack:
                u = stack.pop()
                for d in preds[u]:
                    if is_state(kinds[d]) or d in seen: continue
                    seen.add(d); comb_req.add(d); stack.append(d)
            got = [x.index for x in c.fanin([nodes[i] for i in origins])]
            res.evals += 1
            fkey = key + f'/fanin{mask}'
            if len(set(got)) != len(got):
                res.violation(fkey + '/dup', case, f'fanin({origins}) yielded duplicates {got}')
            if not comb_req <= set(got):
                res.violation(fkey + '/missing', case, f'fanin({origins}) = {got} misses {sorted(comb_req - set(got))}; edges {edges} kinds {kinds}')
            if not set(got) <= any_set:
                res.violation(fkey + '/extra', case, f'fanin({origins}) = {got} contains nodes without any path: {sorted(set(got) - any_set)}')
            gpos = {v: i for i, v in enumerate(got)}
            for d, r, p in edges:
                if d in gpos and r in gpos and not is_state(kinds[d]) and gpos[r] > gpos[d]:
                    res.violation(fkey + '/order', case, f'fanin({origins}) = {got}: reader {r} after driver {d}')
            if all_comb and set(got) != any_set:
                res.violation(fkey + '/not-exact', case, f'combinational graph: fanin({origins}) = {sorted(got)} expected {sorted(any_set)}')
        conn = set((r, p) for d, r, p in edges)
        if any((r, q) not in conn for d, r, p in edges for q in range(p)): res.count('graphs_with_unconnected_inpin')
        if shift: res.count('graphs_with_unconnected_outpin')
    except Exception as ex:
        res.violation(key + f'/exception-{type(ex).__name__}', case, traceback.format_exc()[-1200:])


# ---------------------------------------------------------------- names

SCHEMES = {
    's': lambda b, idx: b,
    'br': lambda b, idx: f'{b}[{idx[0]}]',
    'us': lambda b, idx: f'{b}_{idx[0]}',
    'dg': lambda b, idx: f'{b}{idx[0]}',
    'brbr': lambda b, idx: f'{b}[{idx[0]}][{idx[1]}]',
    'usus': lambda b, idx: f'{b}_{idx[0]}_{idx[1]}',
    'dgbr': lambda b, idx: f'{b}{idx[0]}[{idx[1]}]',
}
INDICES = [0, 1, 2, 10]


def name_pools():
    """Yields lists of (name, base, index tuple). Bases may be prefixes of each other."""
    one_d = [list(s) for k in (1, 2, 3) for s in itertools.combinations(INDICES, k)]
    two_d = [[(0, 0), (0, 1), (1, 0)], [(1, 10), (10, 1)], [(0, 2), (2, 0), (10, 10)], [(1, 1)]]
    groups = []
    for base in ('d', 'dx', 'e'):
        g = [[(base, base, ())]]
        for sch in ('br', 'us', 'dg'):
            for idxs in one_d:
                g.append([(SCHEMES[sch](base, (i,)), base, (i,)) for i in idxs])
        for sch in ('brbr', 'usus', 'dgbr'):
            for idxs in two_d:
                g.append([(SCHEMES[sch](base, ij), base, ij) for ij in idxs])
        groups.append(g)
    # one group alone, and pairs of groups from different bases, total <= 5 names
    for gi in range(3):
        for a in groups[gi]:
            yield a
    for gi, gj in [(0, 1), (0, 2), (1, 2)]:
        for a in groups[gi]:
            for b in groups[gj]:
                if len(a) + len(b) <= 5: yield a + b
    for a in groups[0][:4]:
        for b in groups[1][:4]:
            for cc in groups[2][:4]:
                if len(a) + len(b) + len(cc) <= 5: yield a + b + cc


def ref_locs(prefix, names):
    """Oracle from the docstring: positions grouped by base name (alphanumeric order), bus bits by numeric index."""
    tree = {}
    for pos, nm in enumerate(names):
        if not nm.startswith(prefix): continue
        rest = nm[len(prefix):]
        m = re.search(r'[\d_\[\]]*$', rest)
        base = prefix + rest[:m.start()]
        idx = [int(x) for x in re.findall(r'\d+', m.group(0))]
        path = [base] + idx
        d = tree
        for k in path[:-1]:
            d = d.setdefault(k, {})
            if not isinstance(d, dict): return 'undefined'
        if isinstance(d.get(path[-1]), dict): return 'undefined'
        d[path[-1]] = pos
    def sv(d): return [sv(v) for _, v in sorted(d.items())] if isinstance(d, dict) else d
    l = sv(tree)
    while isinstance(l, list) and len(l) == 1: l = l[0]
    return None if isinstance(l, list) and len(l) == 0 else l


def orders(k):
    perms = list(itertools.permutations(range(k)))
    if k <= 3: return perms
    if k == 4: return perms[::3]
    return [perms[0], perms[-1], perms[len(perms) // 2], perms[7], perms[33], perms[101]]


def check_names(res, case):
    from kyupy.circuit import Circuit, Node
    names, order, n_io = case['names'], case['order'], case['n_io']
    try:
        c = Circuit('n')
        ordered = [names[i] for i in order]
        # first n_io names are ports (io_nodes, in this order); the rest are state elements created in list order
        for i, nm in enumerate(ordered):
            if i < n_io:
                c.io_nodes.append(Node(c, nm, 'input' if i % 2 == 0 else 'output'))
            else:
                Node(c, nm, 'dff' if (i - n_io) % 2 == 0 else 'latch')
        io_names = [x.name for x in c.io_nodes]
        s_names = io_names + [x.name for x in c.nodes if 'dff' in x.kind] + [x.name for x in c.nodes if 'latch' in x.kind]
        prefixes = set()
        for nm in names:
            for L in range(1, len(nm) + 1):
                p = nm[:L]
                if re.fullmatch(r'[A-Za-z0-9_]+', p): prefixes.add(p)
        prefixes.add('zz')
        for p in sorted(prefixes):
            for fn, pool in (('io_locs', io_names), ('s_locs', s_names)):
                exp = ref_locs(p, pool)
                if exp == 'undefined': continue
                res.evals += 1
                key = f'C17/names/{fn}/{",".join(ordered)}/{n_io}/{p}'
                try:
                    got = getattr(c, fn)(p)
                except Exception as ex:
                    res.violation(key + f'/exception-{type(ex).__name__}', case, f'{fn}({p!r}) raised {ex!r} for names {pool}')
                    continue
                if got != exp:
                    res.violation(key, case, f'{fn}({p!r}) = {got} expected {exp} for names {pool}')
                if isinstance(exp, list): res.sig((tuple(pool), p, repr(exp)))
                if isinstance(exp, list) and exp and isinstance(exp[0], list): res.count('nested_results')
    except Exception as ex:
        res.violation(f'C17/names/{",".join(names)}/exception-{type(ex).__name__}', case, traceback.format_exc()[-1200:])


def run_task(task):
    res = common.Result()
    if task[0] in ('graphs', 'graphs4x'):
        n, L, kinds = task[1], task[2], task[3]
        last_by_size = {}
        for gi, (edges, shift) in enumerate(gen_graphs(n, L, kinds)):
            if task[0] == 'graphs4x':
                if len(edges) != 4 or gi % task[5] != task[4]: continue
            case = {'kind': 'graph', 'kinds': kinds, 'edges': [list(e) for e in edges], 'shift': shift}
            check_graph(res, case)
            ne = len(edges)
            if ne and last_by_size.get(ne) is not None and gi % 7 == 0:
                check_graph(res, dict(case, prev_edges=last_by_size[ne]))
            last_by_size[ne] = [list(e) for e in edges]
            if len(res.samples) < 1 and len(edges) >= 2: res.samples.append(case)
    elif task[0] == 'big':
        for K in ((300,) if task[2] == 'quick' or task[1] in ('ladder',) else (300, 70000 if task[1] == 'grid' else 1000)):
            kinds, edges, origin_sets = big_graph(task[1], K)
            check_graph(res, {'kind': 'graph', 'kinds': kinds, 'edges': [list(e) for e in edges], 'shift': False, 'origin_sets': origin_sets, 'big': [task[1], K]})
            res.count('big_graphs')
    else:
        shard, nsh, tier = task[1], task[2], task[3]
        for pi, pool in enumerate(name_pools()):
            if pi % nsh != shard: continue
            names = [x[0] for x in pool]
            if len(set(names)) != len(names): continue
            for oi, order in enumerate(orders(len(names))):
                n_ios = range(len(names) + 1) if tier == 'thorough' else sorted({len(names), (pi + oi) % (len(names) + 1)})
                for n_io in n_ios:
                    case = {'kind': 'names', 'names': names, 'order': list(order), 'n_io': n_io}
                    check_names(res, case)
            if len(res.samples) < 1 and len(names) >= 3: res.samples.append({'names': names})
    return res


def replay(case):
    common.setup_kyupy()
    res = common.Result()
    if case['kind'] == 'graph': check_graph(res, case)
    else: check_names(res, case)
    return res.violations


def finish(agg, tier):
    need = ['graphs_with_unconnected_inpin', 'graphs_with_unconnected_outpin', 'nested_results', 'big_graphs', 'rewired_in_place', 'concurrent_traversals']
    missing = [k for k in need if not agg.counters.get(k)]
    if missing: raise common.HarnessError(f'vacuity guard: {missing} zero')
    return {}
