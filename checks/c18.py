"""C18 - STIL patterns map scan data onto flip-flops by chain order and inversion.

E1: generated scan designs x chain orders x every placement of inversion markers x signal-group
orders x pattern sets, rendered to STIL text; oracle built from the generator's AST.
"""
import itertools
import traceback

import numpy as np

from mc import common, ref

PROP = 'C18'
LEVEL = 'exploration'
RULE = ('scan designs (1-2 chains of 1-3 flip-flops, node order shuffled against chain order, optional latch) x EVERY placement of "!" markers in the ScanCells list (2^(len+1)) x '
        'signal-group orders (all permutations of _pi and _po for <= 3 free members, rotations above) x cell-name styles x pattern sets (every load string over {0,1} for one pattern, '
        'N at each position, every unload string over {L,H} plus X at each position, two-pattern sets, three-pattern sets with a don\'t-care pattern first / in the middle, launch/capture calls with and without clock pulses, launch calls with output values of their own); '
        'distinct_nontrivial = distinct (design, STIL text) pairs whose expected arrays contain both 0 and 1')
ASSUMPTIONS = ['row order of all returned arrays = circuit.s_nodes (ports, flip-flops, latches)',
               'load/unload character k belongs to the k-th scan cell counted from scan-out; load inversion = parity of markers between scan-in and the cell, unload inversion = parity between the cell and scan-out',
               'tests_loc is compared on patterns with launch and capture clock pulses (flip-flops and inputs) and, without pulses, on the flip-flops only; N compared modulo {X,-}']

Z, X, U, O = 0, 1, 2, 3


class Design:
    """generator AST of a scan design"""
    def __init__(self, chains, ff_order, n_pi=2, n_po=1, latch=False, io_perm=0, kind='DFF'):
        self.chains = chains            # list of lists of ff names, in scan order from scan-in to scan-out
        self.ff_order = ff_order        # node creation order of all ff names
        self.n_pi, self.n_po, self.latch, self.io_perm, self.kind = n_pi, n_po, latch, io_perm, kind
        self.pis = [f'a{k}' for k in range(n_pi)] + ['clk', 'se'] + [f'si{c}' for c in range(len(chains))]
        self.pos = [f'z{k}' for k in range(n_po)] + [f'so{c}' for c in range(len(chains))]

    def to_json(self):
        return {'chains': self.chains, 'ff_order': self.ff_order, 'n_pi': self.n_pi, 'n_po': self.n_po, 'latch': self.latch, 'io_perm': self.io_perm, 'kind': self.kind}

    @staticmethod
    def from_json(d): return Design(d['chains'], d['ff_order'], d['n_pi'], d['n_po'], d['latch'], d['io_perm'], d.get('kind', 'DFF'))

    def build(self):
        from kyupy.circuit import Circuit, Node, Line
        c = Circuit('top')
        ios = [('i', n) for n in self.pis] + [('o', n) for n in self.pos]
        r = self.io_perm % len(ios)
        ios = ios[r:] + ios[:r]
        if self.io_perm >= len(ios): ios = ios[::-1]
        nodes = {}
        for d, n in ios:
            nodes[n] = Node(c, n, 'input' if d == 'i' else 'output')
            c.io_nodes.append(nodes[n])
        sig = {}
        for n in self.pis:
            f = Node(c, n); Line(c, nodes[n], f); sig[n] = f
        for n in self.ff_order:
            nodes[n] = Node(c, n, self.kind)
            f = Node(c, n); Line(c, nodes[n], f); sig[n] = f
        if self.latch:
            nodes['lat'] = Node(c, 'lat', 'LATCH')
            f = Node(c, 'lat'); Line(c, nodes['lat'], f); sig['lat'] = f
            Line(c, sig['a0'], nodes['lat'])
        allff = [n for ch in self.chains for n in ch]
        # functional logic: D(ff_j) = XOR(a_(j mod n_pi), Q(previous ff in the list)) ; first: NAND(a0, Q(last))
        for j, n in enumerate(allff):
            g = Node(c, f'g_{n}', 'XOR2' if j else 'NAND2')
            Line(c, sig[f'a{j % self.n_pi}'], g)
            Line(c, sig[allff[j - 1]], g)
            Line(c, g, (nodes[n], 0))
            Line(c, sig['clk'], (nodes[n], 1))
        for k in range(self.n_po):
            g = Node(c, f'gz{k}', 'OR2' if k else 'AND2')
            Line(c, sig[allff[k % len(allff)]], g); Line(c, sig[f'a{k % self.n_pi}'], g)
            Line(c, g, nodes[f'z{k}'])
        for ci, ch in enumerate(self.chains):
            Line(c, sig[ch[-1]], nodes[f'so{ci}'])
        return c


LAYOUTS = ['plain', 'wrapped', 'chain_fields_rev', 'si_first', 'separate_unload', 'tabs']


def render_stil(design, markers, pi_order, po_order, patterns, name_style='plain', loc=False, callnames=0, layout='plain'):
    """layout: textual arrangement, all legal and equivalent - wrapped: data strings continue on the next line after every second
    character | chain_fields_rev: ScanCells first, ScanIn/ScanOut/ScanLength after it | si_first: scan-in data before scan-out data
    inside load_unload | separate_unload: the unload of a pattern is a load_unload call of its own, followed by the call that loads the
    next pattern | tabs: tabs instead of blanks, a comment line after every line"""
    wrap = (lambda d: '\n'.join(d[i:i + 2] for i in range(0, len(d), 2))) if layout == 'wrapped' else (lambda d: d)
    """markers: per chain a list of booleans of length len(chain)+1: marker before cell k (k=len: after the last cell)."""
    out = ['STIL 1.0 { Design 2005; }', 'Header {', '   Title "generated";', '   History { Ann {* nothing {nested} *} }', '}']
    out.append('Signals {')
    out.append('   ' + ' '.join(f'"{n}" In;' for n in design.pis) + ' ' + ' '.join(f'"{n}" Out;' for n in design.pos))
    out.append('}')
    out.append('SignalGroups {')
    out.append('   "_pi" = \'' + ' + '.join(f'"{n}"' for n in pi_order) + '\'; // #signals=' + str(len(pi_order)))
    out.append('   "_po" = \'' + ' +\n   '.join(f'"{n}"' for n in po_order) + '\';')
    out.append('   "_si" = \'' + ' + '.join(f'"si{c}"' for c in range(len(design.chains))) + '\' { ScanIn; }')
    out.append('}')
    out.append('ScanStructures {')
    for ci, ch in enumerate(design.chains):
        cells = []
        for k, n in enumerate(ch):
            if markers[ci][k]: cells.append('!')
            cells.append({'plain': f'"{n}"', 'dotted': f'"top.{n}.SI"', 'hier': f'"top.u1.{n}"'}[name_style])
        if markers[ci][len(ch)]: cells.append('!')
        out.append(f'   ScanChain "c{ci}" {{')
        fields = [f'      ScanLength {len(ch)};', f'      ScanIn "si{ci}";', f'      ScanOut "so{ci}";', '      ScanInversion 0;',
                  '      ScanCells ' + ' '.join(cells) + ' ;', '      ScanMasterClock "clk" ;']
        out += [fields[4], fields[5], fields[2], fields[1], fields[0], fields[3]] if layout == 'chain_fields_rev' else fields
        out.append('   }')
    out.append('}')
    out.append('PatternBurst "_burst_" { PatList { "_pattern_" { } } }')
    out.append('PatternExec { PatternBurst "_burst_"; }')
    out.append('Procedures { "load_unload" { W "_default_WFT_"; Shift { V { "_clk"=P0; } } } }')
    out.append('MacroDefs { "test_setup" { W "_default_WFT_"; V { "clk"=0; } } }')
    out.append('Pattern "_pattern_" {')
    out.append('   W "_default_WFT_";')
    out.append('   Macro "test_setup";')
    out.append('   Ann {* chain_test *}')
    prev_unload = None
    for i, p in enumerate(patterns):
        so_lines = [f'      "so{ci}"={wrap(prev_unload[ci])};' for ci in range(len(design.chains))] if prev_unload is not None else []
        si_lines = [f'      "si{ci}"={wrap(p["load"][ci])}; ' for ci in range(len(design.chains))]
        if layout == 'separate_unload' and so_lines:
            out += [f'   "pattern {i - 1} unload": Call "load_unload" {{'] + so_lines + ['   }']
            so_lines = []
        out.append(f'   "pattern {i}": Call "load_unload" {{')
        out += (si_lines + so_lines) if layout == 'si_first' else (so_lines + si_lines)
        out.append('   }')
        if p.get('launch_pi') is not None:
            ln, cn = [('allclock_launch', 'allclock_capture'), ('multiclock_launch', 'allclock_launch_capture'), ('x_launch', 'y_launch_z_capture')][callnames % 3]
            if p.get('launch_po') is not None:      # the launch cycle may list (strobe) the outputs as well; responses are those of the capture cycle
                out.append(f'   Call "{ln}" {{\n      "_pi"={wrap(p["launch_pi"])}; "_po"={wrap(p["launch_po"])}; }}')
            else:
                out.append(f'   Call "{ln}" {{\n      "_pi"={wrap(p["launch_pi"])}; }}')
            out.append(f'   Call "{cn}" {{\n      "_pi"={wrap(p["capture_pi"])}; "_po"={wrap(p["capture_po"])}; }}')
        else:
            cn = ['multiclock_capture', 'allclock_capture', 'allclock_launch_capture', 'one_launch_two_capture'][callnames % 4]
            out.append(f'   Call "{cn}" {{\n      "_pi"={wrap(p["capture_pi"])}; "_po"={wrap(p["capture_po"])}; }}')
        prev_unload = p['unload']
    out.append(f'   "end {len(patterns) - 1} unload": Call "load_unload" {{')
    for ci in range(len(design.chains)): out.append(f'      "so{ci}"={wrap(prev_unload[ci])};' + (' }' if ci == len(design.chains) - 1 else ''))
    out.append('}')
    out.append('')
    out.append('// Patterns reference 3 V statements')
    if layout == 'tabs':
        return '\n// comment ; here\n'.join(x.replace('   ', '\t') for x in out) + '\n'
    return '\n'.join(out) + '\n'


CH = {'0': Z, '1': O, 'N': U, 'L': Z, 'H': O, 'X': X, 'P': 4}


def expected(design, circuit, markers, pi_order, po_order, patterns):
    snames = [n.name for n in circuit.s_nodes]
    pos = {n: i for i, n in enumerate(snames)}
    tests = np.full((len(snames), len(patterns)), U, dtype=np.uint8)
    resp = np.full((len(snames), len(patterns)), U, dtype=np.uint8)
    for i, p in enumerate(patterns):
        for ci, ch in enumerate(design.chains):
            L = len(ch)
            from_so = ch[::-1]
            for k, cell in enumerate(from_so):
                idx = L - 1 - k                                   # position of the cell in scan order
                inv_in = sum(markers[ci][:idx + 1]) & 1            # markers between scan-in and the cell
                inv_out = sum(markers[ci][idx + 1:]) & 1           # markers between the cell and scan-out
                v = CH[p['load'][ci][k]]
                if v in (Z, O) and inv_in: v = O if v == Z else Z
                tests[pos[cell], i] = v
                u = CH[p['unload'][ci][k]]
                if u in (Z, O) and inv_out: u = O if u == Z else Z
                resp[pos[cell], i] = u
        for k, n in enumerate(pi_order): tests[pos[n], i] = CH[p['capture_pi'][k]]
        for k, n in enumerate(po_order): resp[pos[n], i] = CH[p['capture_po'][k]]
    return tests, resp


def stil_case(res, case):
    from kyupy import stil
    d = Design.from_json(case['design'])
    res.evals += 1
    c = d.build()
    markers, pi_order, po_order, patterns = case['markers'], case['pi_order'], case['po_order'], case['patterns']
    text = render_stil(d, markers, pi_order, po_order, patterns, case['names'], loc=case.get('loc', False), callnames=case.get('callnames', 0), layout=case.get('layout', 'plain'))
    key = f'C18/{common.h64(case["design"]):08x}/m{"".join("".join(str(int(x)) for x in m) + "_" for m in markers)}/{common.h64(text):016x}'
    case = dict(case, text=text)
    try:
        s = stil.parse(text)
        exp_t, exp_r = expected(d, c, markers, pi_order, po_order, patterns)
        if not case.get('loc'):
            got_t = np.asarray(s.tests(c))
            if got_t.shape != exp_t.shape:
                res.violation(key + '/tests-shape', case, f'tests() shape {got_t.shape} expected {exp_t.shape} (rows must follow s_nodes {[n.name for n in c.s_nodes]})\n{text}')
            elif not np.array_equal(got_t, exp_t):
                bad = np.argwhere(got_t != exp_t)[0].tolist()
                res.violation(key + '/tests', case, f'tests()[{c.s_nodes[bad[0]].name}, pattern {bad[1]}] = {ref.CHARS[int(got_t[tuple(bad)])]} expected {ref.CHARS[int(exp_t[tuple(bad)])]}; markers {markers} chains {d.chains}\n{text}')
            if not np.array_equal(np.asarray(s.tests(c)), got_t): res.violation(key + '/tests-second-call', case, 'a second tests() call returns a different array')
            res.count('tests_cases')
        got_r = np.asarray(s.responses(c))
        if got_r.shape != exp_r.shape:
            res.violation(key + '/responses-shape', case, f'responses() shape {got_r.shape} expected {exp_r.shape}\n{text}')
        elif not np.array_equal(got_r, exp_r):
            bad = np.argwhere(got_r != exp_r)[0].tolist()
            res.violation(key + '/responses', case, f'responses()[{c.s_nodes[bad[0]].name}, pattern {bad[1]}] = {ref.CHARS[int(got_r[tuple(bad)])]} expected {ref.CHARS[int(exp_r[tuple(bad)])]}; markers {markers} chains {d.chains}\n{text}')
        if not np.array_equal(np.asarray(s.responses(c)), got_r): res.violation(key + '/responses-second-call', case, 'a second responses() call returns a different array')
        # the same StilFile object asked for a second circuit of the same design (same name, same number of nodes) whose ports and flip-flops
        # were created in another order: rows follow the circuit they are asked for
        d2 = Design(d.chains, d.ff_order[::-1], d.n_pi, d.n_po, d.latch, d.io_perm + 3, d.kind)
        c2 = d2.build()
        e2t, e2r = expected(d2, c2, markers, pi_order, po_order, patterns)
        if [n.name for n in c2.s_nodes] != [n.name for n in c.s_nodes]:
            if not case.get('loc'):
                g2 = np.asarray(s.tests(c2))
                if g2.shape != e2t.shape or not np.array_equal(g2, e2t):
                    res.violation(key + '/tests-second-circuit', case, f'tests() for a second circuit (rows {[n.name for n in c2.s_nodes]}) after one with rows {[n.name for n in c.s_nodes]} on the same StilFile object is wrong\n{text}')
            g2r = np.asarray(s.responses(c2))
            if g2r.shape != e2r.shape or not np.array_equal(g2r, e2r):
                res.violation(key + '/responses-second-circuit', case, f'responses() for a second circuit with another port/state order on the same StilFile object is wrong\n{text}')
            res.count('second_circuit_cases')
        if case.get('loc'):
            def check_loc(got, fill, key):
                # fill: None, or the value an init_filter puts on every unassigned position of the initialisation patterns
                snames = [n.name for n in c.s_nodes]
                pos = {n: i for i, n in enumerate(snames)}
                if got.shape != (len(snames), len(patterns)):
                    res.violation(key + '/loc-shape', case, f'tests_loc() shape {got.shape}\n{text}')
                else:
                    for i, p in enumerate(patterns):
                        has_launch = p.get('launch_pi') is not None      # a single-cycle pattern inside a launch-on-capture set holds the loaded state
                        pulses = has_launch and 'P' in p['launch_pi'] and 'P' in p['capture_pi']
                        # loaded state after inversion
                        loaded = {n: int(exp_t[pos[n], i]) for ch in d.chains for n in ch}
                        if fill is not None: loaded = {n: (fill if v == U else v) for n, v in loaded.items()}
                        launch_pi = {n: CH[(p['launch_pi'] if has_launch else p['capture_pi'])[k]] for k, n in enumerate(pi_order)}
                        cap_pi = {n: CH[p['capture_pi'][k]] for k, n in enumerate(pi_order)}
                        if fill is not None: launch_pi = {n: (fill if v == U else v) for n, v in launch_pi.items()}
                        # reference next state from the loaded state and the launch inputs (2-valued where known)
                        assign = {}
                        for n in c.s_nodes:
                            if n.name in loaded: assign[n.index] = 1 if loaded[n.name] == O else 0
                            elif n.name in launch_pi: assign[n.index] = 1 if launch_pi[n.name] == O else 0
                            elif n.kind == 'LATCH': assign[n.index] = 0
                        vals = ref.graph_eval(c, assign, lambda kind, pp: ref.gate2(kind, pp, 1), lambda v: 1 - v, 0)
                        fully = all(v in (Z, O) for v in loaded.values()) and all(v in (Z, O, 4) for v in launch_pi.values())
                        for n in loaded:
                            node = c.cells[n]
                            nxt = vals[node.ins[0].index] if pulses else (1 if loaded[n] == O else 0)
                            exp = {(0, 0): 0, (1, 1): 3, (0, 1): 5, (1, 0): 6}[(1 if loaded[n] == O else 0, nxt)]
                            g = int(got[pos[n], i])
                            if fully and g != exp:
                                res.violation(key + '/loc-ff', case, f'tests_loc()[{n}, pattern {i}] = {ref.CHARS[g]} expected {ref.CHARS[exp]} (loaded {ref.CHARS[loaded[n]]}, next state {nxt}, pulses {pulses}, launch call {has_launch})\n{text}')
                        if not has_launch: res.count('loc_single_cycle_patterns')
                        if pulses:
                            for n in pi_order:
                                a, b2 = launch_pi[n], cap_pi[n]
                                if a in (Z, O, 4) and b2 in (Z, O, 4):
                                    ai, bf = (1 if a == O else 0), (1 if b2 == O else 0)
                                    exp = {(0, 0): 0, (1, 1): 3, (0, 1): 5, (1, 0): 6}[(ai, bf)]
                                    g = int(got[pos[n], i])
                                    if g != exp:
                                        res.violation(key + '/loc-pi', case, f'tests_loc()[{n}, pattern {i}] = {ref.CHARS[g]} expected {ref.CHARS[exp]} (launch {p["launch_pi"]}, capture {p["capture_pi"]}, _pi order {pi_order})\n{text}')
                                elif a in (Z, O, U) and b2 in (Z, O, U) and fill is None:
                                    # documented combination rule: both unassigned -> unassigned, otherwise any unknown side -> unknown
                                    exp = U if (a == U and b2 == U) else X
                                    g = int(got[pos[n], i])
                                    if g != exp:
                                        res.violation(key + '/loc-pi-unassigned', case, f'tests_loc()[{n}, pattern {i}] = {ref.CHARS[g]} expected {ref.CHARS[exp]} (launch {ref.CHARS[a]}, capture {ref.CHARS[b2]})\n{text}')
                                    res.count('loc_pi_unassigned')
                        for n in po_order:
                            if int(got[pos[n], i]) != U:
                                res.violation(key + '/loc-po', case, f'tests_loc() assigns output {n}')
                    res.count('loc_cases')
            check_loc(np.asarray(s.tests_loc(c)), None, key)
            base_loc = np.asarray(s.tests_loc(c))
            ident = lambda a: np.array(a, copy=True)
            if not np.array_equal(np.asarray(s.tests_loc(c, init_filter=ident, launch_filter=ident)), base_loc):
                res.violation(key + '/loc-identity-filters', case, 'tests_loc with filters that return unchanged copies differs from tests_loc without filters')
            # a launch_filter that forces every flip-flop of the launch state to 0: the final half of every flip-flop value is 0
            ffrows = [i for i, n in enumerate(c.s_nodes) if any(n.name in ch for ch in d.chains)]
            def lzero(a):
                out = np.array(a, copy=True); out[ffrows] = Z
                return out
            gl = np.asarray(s.tests_loc(c, launch_filter=lzero))
            for i in range(len(patterns)):
                for r in ffrows:
                    ld = int(exp_t[r, i])
                    if ld in (Z, O) and int(gl[r, i]) != {Z: 0, O: 6}[ld]:
                        res.violation(key + '/loc-launch-filter', case, f'tests_loc(launch_filter=all flip-flops 0)[{c.s_nodes[r].name}, pattern {i}] = {ref.CHARS[int(gl[r, i])]}, loaded {ref.CHARS[ld]}\n{text}')
            res.count('loc_launch_filter_cases')
            if any('N' in x for p in patterns for x in p['load']):
                # the documented init_filter hook: filling the don't-care positions before simulation is the same as loading the filled state
                for fill in (Z, O):
                    porows = [i for i, n in enumerate(c.s_nodes) if n.name in po_order]
                    def filt(a, fill=fill):         # fills inputs and flip-flops, leaves the output rows alone
                        a = np.asarray(a)
                        out = np.where(a == U, fill, a).astype(np.uint8)
                        out[porows] = a[porows]
                        return out
                    check_loc(np.asarray(s.tests_loc(c, init_filter=filt)), fill, key + f'/init_filter{fill}')
                    res.count('loc_init_filter_cases')
        if (exp_t == Z).any() and (exp_t == O).any(): res.sig((case['design'], text))
        res.count('cases')
        if any(any(m) for m in markers): res.count('cases_with_markers')
    except Exception as ex:
        res.violation(key + f'/exception-{type(ex).__name__}', case, traceback.format_exc()[-1200:] + '\n' + text)


def designs(tier):
    out = []
    out.append(Design([['f0']], ['f0']))
    out.append(Design([['f0', 'f1']], ['f1', 'f0']))
    out.append(Design([['f0', 'f1', 'f2']], ['f2', 'f0', 'f1'], n_po=2, io_perm=3))
    out.append(Design([['f1', 'f0'], ['f2']], ['f0', 'f1', 'f2'], io_perm=11))
    out.append(Design([['f0', 'f1']], ['f0', 'f1'], latch=True))
    out.append(Design([['f0', 'f1']], ['f1', 'f0'], kind='SDFFX1_RVT'))
    if tier == 'thorough':
        out.append(Design([['f2', 'f0', 'f1'], ['f3', 'f4']], ['f4', 'f1', 'f3', 'f0', 'f2'], n_po=2, io_perm=5))
    return out


def group_orders(names, tier):
    free = list(names)
    if len(free) <= 3: return [list(p) for p in itertools.permutations(free)]
    outs = [free, free[::-1]] + [free[r:] + free[:r] for r in range(1, len(free))]
    return outs if tier == 'thorough' else outs[:4]


def tasks(tier, seed):
    return [('d', i, sh, NSHARDS, tier, seed) for i in range(len(designs(tier))) for sh in range(NSHARDS)]


NSHARDS = 4   # marker placements of one design are spread over this many tasks


def run_task(task):
    res = common.Result()
    _, di, shard, nshards, tier, seed = task
    d = designs(tier)[di]
    try:
        run_design(res, d, tier, seed, shard, nshards)
    except Exception as ex:
        res.violation(f'C18/design{di}/task-exception-{type(ex).__name__}', {'kind': 'task'}, traceback.format_exc()[-1500:])
    return res


def run_design(res, d, tier, seed, shard=0, nshards=1):
    nch = len(d.chains)
    npi, npo = len(d.pis), len(d.pos)
    def base_pattern(bits=0):
        return {'load': [''.join('01011'[(bits + ci + t) % 5] for t in range(len(ch))) for ci, ch in enumerate(d.chains)],
                'unload': [''.join('LHHLH'[(bits + ci + t) % 5] for t in range(len(ch))) for ci, ch in enumerate(d.chains)],
                'capture_pi': ''.join('01'[(k + bits) % 2] for k in range(npi)), 'capture_po': ''.join('HL'[(k + bits) % 2] for k in range(npo))}
    marker_sets = list(itertools.product(*[list(itertools.product((False, True), repeat=len(ch) + 1)) for ch in d.chains]))
    pi_orders = group_orders(d.pis, tier)
    po_orders = group_orders(d.pos, tier)
    ncase = [1000 * shard]
    def case(markers, pi_o, po_o, patterns, names='plain', loc=False):
        ncase[0] += 1
        return {'callnames': ncase[0], 'kind': 'stil', 'design': d.to_json(), 'markers': [list(m) for m in markers], 'pi_order': pi_o, 'po_order': po_o, 'patterns': patterns, 'names': names, 'loc': loc}
    # every marker placement x every load string x every unload string (one pattern), default groups
    for mi, markers in enumerate(marker_sets):
        if mi % nshards != shard: continue
        loads = list(itertools.product(*[[''.join(t) for t in itertools.product('01', repeat=len(ch))] for ch in d.chains]))
        unloads = list(itertools.product(*[[''.join(t) for t in itertools.product('LH', repeat=len(ch))] for ch in d.chains]))
        for li, load in enumerate(loads):
            p = base_pattern(); p['load'] = list(load); p['unload'] = list(unloads[(li * 5 + 1) % len(unloads)])
            stil_case(res, case(markers, d.pis, d.pos, [p]))
        for un in unloads:
            p = base_pattern(); p['unload'] = list(un)
            stil_case(res, case(markers, d.pis, d.pos, [p], names='dotted'))
        # N / X at each position
        for ci, ch in enumerate(d.chains):
            for k in range(len(ch)):
                p = base_pattern(1)
                p['load'][ci] = p['load'][ci][:k] + 'N' + p['load'][ci][k + 1:]
                p['unload'][ci] = p['unload'][ci][:k] + 'X' + p['unload'][ci][k + 1:]
                stil_case(res, case(markers, d.pis, d.pos, [p], names='hier'))
        # two patterns
        stil_case(res, case(markers, d.pis[::-1], d.pos[::-1], [base_pattern(0), base_pattern(1)]))
        # textual layouts of the same three-pattern set (plain and launch-on-capture)
        for layout in LAYOUTS[1:]:
            pats = [base_pattern(0), base_pattern(1), base_pattern(2)]
            stil_case(res, dict(case(markers, d.pis, d.pos, pats), layout=layout))
            lp = []
            for bits, q in enumerate(pats):
                q = dict(q)
                q['launch_pi'] = ''.join('P' if n == 'clk' else ('0' if n == 'se' else '01'[(j + bits) % 2]) for j, n in enumerate(d.pis))
                q['capture_pi'] = ''.join('P' if n == 'clk' else ('0' if n == 'se' else '01'[(j + bits + 1) % 2]) for j, n in enumerate(d.pis))
                if bits != 1:      # launch calls that list output values of their own (the complement of the capture cycle's)
                    q['launch_po'] = ''.join({'H': 'L', 'L': 'H'}.get(ch_, ch_) for ch_ in q['capture_po'])
                    res.count('loc_launch_with_po')
                lp.append(q)
            stil_case(res, dict(case(markers, d.pis, d.pos, lp, loc=True), layout=layout))
            res.count('layout_' + layout)
        # pattern sets of three: a pattern with a don't-care at one cell before / between fully specified ones; what one pattern
        # holds must not influence the values of the others (every position of N/X, with and without launch-on-capture)
        for ci, ch in enumerate(d.chains):
            for k in range(len(ch)):
                pn = base_pattern(1)
                pn['load'][ci] = pn['load'][ci][:k] + 'N' + pn['load'][ci][k + 1:]
                pn['unload'][ci] = pn['unload'][ci][:k] + 'X' + pn['unload'][ci][k + 1:]
                ones = base_pattern(0); ones['load'] = ['1' * len(c_) for c_ in d.chains]; ones['unload'] = ['H' * len(c_) for c_ in d.chains]
                zeros = base_pattern(1); zeros['load'] = ['0' * len(c_) for c_ in d.chains]; zeros['unload'] = ['L' * len(c_) for c_ in d.chains]
                stil_case(res, case(markers, d.pis, d.pos, [pn, ones, zeros]))
                stil_case(res, case(markers, d.pis, d.pos, [zeros, pn, ones]))
                lp = []
                for q, bits in ((pn, 0), (ones, 1), (zeros, 0)):
                    q = dict(q)
                    q['launch_pi'] = ''.join('P' if n == 'clk' else ('0' if n == 'se' else '01'[(j + bits) % 2]) for j, n in enumerate(d.pis))
                    q['capture_pi'] = ''.join('P' if n == 'clk' else ('0' if n == 'se' else '01'[(j + bits + 1) % 2]) for j, n in enumerate(d.pis))
                    lp.append(q)
                stil_case(res, case(markers, d.pis, d.pos, lp, loc=True))
                res.count('three_pattern_sets')
        # launch-on-capture sets that mix two-cycle patterns with single-cycle ones (capture call only), in both orders
        def two_cycle(bits):
            q = base_pattern(bits)
            q['launch_pi'] = ''.join('P' if n == 'clk' else ('0' if n == 'se' else '01'[(j + bits) % 2]) for j, n in enumerate(d.pis))
            q['capture_pi'] = ''.join('P' if n == 'clk' else ('0' if n == 'se' else '01'[(j + bits + 1) % 2]) for j, n in enumerate(d.pis))
            return q
        def one_cycle(bits):
            q = base_pattern(bits)
            q['capture_pi'] = ''.join('P' if n == 'clk' else ('0' if n == 'se' else '01'[(j + bits) % 2]) for j, n in enumerate(d.pis))
            return q
        stil_case(res, case(markers, d.pis, d.pos, [two_cycle(0), one_cycle(1), two_cycle(2), one_cycle(3)], loc=True))
        # unassigned primary inputs in one or both time frames
        def two_cycle_n(bits):
            q = two_cycle(bits)
            data = [j for j, n in enumerate(d.pis) if n not in ('clk', 'se')]
            lp, cp = list(q['launch_pi']), list(q['capture_pi'])
            for t, j in enumerate(data):
                lp[j] = 'N1N0'[(t + bits) % 4]; cp[j] = '1NNN'[(t + bits) % 4]
            q['launch_pi'], q['capture_pi'] = ''.join(lp), ''.join(cp)
            return q
        stil_case(res, case(markers, d.pis, d.pos, [two_cycle_n(0), two_cycle_n(1), two_cycle_n(2)], loc=True))
        stil_case(res, case(markers, d.pis, d.pos, [one_cycle(2), two_cycle(1), one_cycle(0)], loc=True))
        # launch-on-capture
        clk = None
        for pulses in ((True, True), (True, False), (False, True), (False, False)):
            def pi_string(bits, pulse, order):
                return ''.join(('P' if pulse else '0') if n == 'clk' else ('0' if n == 'se' else '01'[(k + bits) % 2]) for k, n in enumerate(order))
            for oi, pi_o in enumerate(pi_orders[:2] if tier == 'quick' else pi_orders[:4]):
                p = base_pattern(oi)
                p['launch_pi'] = pi_string(oi, pulses[0], pi_o); p['capture_pi'] = pi_string(oi + 1, pulses[1], pi_o)
                p2 = base_pattern(oi + 1)
                p2['launch_pi'] = pi_string(oi + 1, pulses[0], pi_o); p2['capture_pi'] = pi_string(oi, pulses[1], pi_o)
                stil_case(res, case(markers, pi_o, d.pos, [p, p2], loc=True))
    # signal-group orders (no markers and one marker set)
    for markers in (marker_sets[0], marker_sets[-1]) if shard == 0 else ():
        for pi_o in pi_orders:
            for po_o in po_orders:
                p = base_pattern()
                p['capture_pi'] = ''.join('01'[(d.pis.index(n)) % 2] for n in pi_o)
                p['capture_po'] = ''.join('LH'[(d.pos.index(n)) % 2] for n in po_o)
                stil_case(res, case(markers, pi_o, po_o, [p]))
    if len(res.samples) < 1:
        res.samples.append({'design': d.to_json(), 'stil': render_stil(d, [list(m) for m in marker_sets[1]], d.pis, d.pos, [base_pattern()])[:1500]})


def replay(case):
    common.setup_kyupy()
    res = common.Result()
    if case.get('kind') == 'stil': stil_case(res, case)
    return res.violations


def finish(agg, tier):
    if not agg.counters.get('loc_pi_unassigned'): raise common.HarnessError('vacuity guard: no unassigned primary input in a launch-on-capture pattern')
    if not agg.counters.get('second_circuit_cases'): raise common.HarnessError('vacuity guard: no second circuit with another order')
    if not agg.counters.get('loc_init_filter_cases'): raise common.HarnessError('vacuity guard: init_filter never exercised')
    if not agg.counters.get('loc_single_cycle_patterns'): raise common.HarnessError('vacuity guard: no single-cycle pattern in a launch-on-capture set')
    need = ['cases', 'cases_with_markers', 'tests_cases', 'loc_cases', 'loc_launch_with_po']
    missing = [k for k in need if not agg.counters.get(k)]
    if missing: raise common.HarnessError(f'vacuity guard: {missing} zero')
    return {}
