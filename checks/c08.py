"""C08 - signal-memory map and allocator never let live data overlap.

E2: BFS over all alloc/free histories of the real sim.Heap (canonical state = all four fields),
invariants in every state and lock-step comparison with an interval-list reference model.
E1: memory maps of circuit families x capacity vectors x {c_reuse} x {strip_forks}, checked by an
ownership interpretation of the published schedule (ops, level_starts, c_locs, c_caps).
E4 (thorough): TLC state graph of tla/Heap.tla replayed edge by edge on the real Heap.
"""
import itertools
import traceback

import numpy as np

from mc import common, e2, families as F
from mc.netlist import NL, STYLES, build

PROP = 'C08'
LEVEL = 'model_checking'
RULE = ('allocator: breadth-first search over all histories of alloc(s), s in a size set, and free(loc) for every live loc, up to a depth and '
        'live-chunk bound; states deduplicated on the complete object state; memory map: every circuit x capacity vector x c_reuse x strip_forks '
        'is checked by an ownership interpretation of its schedule; distinct_nontrivial = distinct allocator states + distinct memory maps')
ASSUMPTIONS = ['Heap state = (chunks, released, current_size, max_size); equal canonical states have equal futures because alloc/free read nothing else',
               'memory map oracle: every operand region is owned by the operand signal when its op runs, writes of one level are disjoint from each other '
               'and from everything read in that level, input/captured/special regions are never overwritten, all regions lie inside [0, c_len)',
               'scratch slots tmp/tmp2 must never overlap another signal (the multi-valued logic simulator writes them during every complex op)']


# ------------------------------------------------------------------ allocator (E2)

class RefHeap:
    """boring reference: sorted interval list, first fit lowest address, split, two-sided merge, tail trim"""
    def __init__(self):
        self.iv = []          # [start, size, free]
        self.max_size = 0
    def clone(self):
        r = RefHeap(); r.iv = [list(x) for x in self.iv]; r.max_size = self.max_size; return r
    @property
    def size(self): return self.iv[-1][0] + self.iv[-1][1] if self.iv else 0
    def alloc(self, size):
        for i, (st, sz, fr) in enumerate(self.iv):
            if fr and sz >= size:
                if sz == size: self.iv[i][2] = False
                else:
                    self.iv[i] = [st, size, False]
                    self.iv.insert(i + 1, [st + size, sz - size, True])
                return st
        st = self.size
        self.iv.append([st, size, False])
        self.max_size = max(self.max_size, self.size)
        return st
    def free(self, loc):
        i = next(j for j, x in enumerate(self.iv) if x[0] == loc)
        assert not self.iv[i][2]
        self.iv[i][2] = True
        if i + 1 < len(self.iv) and self.iv[i + 1][2]:
            self.iv[i][1] += self.iv[i + 1][1]; del self.iv[i + 1]
        if i > 0 and self.iv[i - 1][2]:
            self.iv[i - 1][1] += self.iv[i][1]; del self.iv[i]
        while self.iv and self.iv[-1][2]: del self.iv[-1]


class HeapSystem:
    def __init__(self, sizes, maxlive):
        from kyupy.sim import Heap
        self.Heap = Heap
        self.sizes, self.maxlive = sizes, maxlive
        self.coalesce_states = 0
        self.two_free_states = 0
    def initial(self): return self.Heap()
    def clone(self, h):
        import copy
        return copy.deepcopy(h)
    def live(self, h): return [l for l in sorted(h.chunks) if l not in h.released]
    def enabled(self, h):
        live = self.live(h)
        ops = []
        if len(live) < self.maxlive: ops += [['alloc', z] for z in self.sizes]
        ops += [['free', l] for l in live]
        return ops
    def apply(self, h, op): return h.alloc(op[1]) if op[0] == 'alloc' else h.free(op[1])
    def canon(self, h): return (tuple(sorted(h.chunks.items())), tuple(h.released), h.current_size, h.max_size)
    def model_initial(self): return RefHeap()
    def model_clone(self, m): return m.clone()
    def model_apply(self, m, op, r):
        return m.alloc(op[1]) if op[0] == 'alloc' else m.free(op[1])
    def check_rejected(self, h, op, ex, m):
        return [('exception-' + type(ex).__name__, f'{op} raised {ex!r}')]
    def check(self, h, op, r, m):
        v = []
        live_before = [(x[0], x[1]) for x in m.iv if not x[2]]
        exp = self.model_apply(m, op, r)
        if op[0] == 'alloc':
            if r != exp: v.append(('alloc-result', f'alloc({op[1]}) returned {r}, first-fit reference returns {exp}'))
            for st, sz in live_before:
                if r < st + sz and st < r + op[1]:
                    v.append(('overlap', f'alloc({op[1]}) returned {r} overlapping live chunk [{st},{st + sz})'))
        v += invariants(h)
        ch = {x[0]: x[1] for x in m.iv}
        rel = [x[0] for x in m.iv if x[2]]
        if dict(h.chunks) != ch: v.append(('chunks', f'chunks {sorted(h.chunks.items())} reference {sorted(ch.items())}'))
        if list(h.released) != rel: v.append(('released', f'released {h.released} reference {rel}'))
        if h.current_size != m.size: v.append(('current_size', f'current_size {h.current_size} reference {m.size}'))
        if h.max_size != m.max_size: v.append(('max_size', f'max_size {h.max_size} reference (true high-water mark) {m.max_size}'))
        if len(rel) >= 2: self.two_free_states += 1
        return v


def invariants(h):
    v = []
    locs = sorted(h.chunks)
    pos = 0
    for l in locs:
        if l != pos: v.append(('tiling', f'chunks do not tile the managed range: gap/overlap at {pos} (chunk at {l}); {sorted(h.chunks.items())}')); break
        if h.chunks[l] <= 0: v.append(('tiling', f'chunk of size {h.chunks[l]} at {l}')); break
        pos = l + h.chunks[l]
    else:
        if pos != h.current_size: v.append(('tiling', f'chunks end at {pos}, current_size {h.current_size}'))
    if list(h.released) != sorted(set(h.released)): v.append(('released-sorted', f'released not sorted/unique: {h.released}'))
    for r in h.released:
        if r not in h.chunks: v.append(('released-subset', f'released {r} is not a chunk start'))
    rs = set(h.released)
    for l in locs:
        if l in rs and l in h.chunks:
            nxt = l + h.chunks[l]
            if nxt in rs: v.append(('coalesce', f'adjacent free chunks at {l} and {nxt} not merged'))
            if nxt == h.current_size: v.append(('tail-trim', f'free chunk at {l} ends at current_size'))
    if h.max_size < h.current_size: v.append(('max_size', f'max_size {h.max_size} < current_size {h.current_size}'))
    return v


def run_heap(res, task):
    _, sizes, maxlive, depth = task
    sysm = HeapSystem(list(sizes), maxlive)
    stats, viols, seen = e2.explore(sysm, depth)
    res.states += stats['states']; res.transitions += stats['transitions']; res.validated += stats['transitions']
    res.evals += stats['transitions']
    for k in seen:
        res.sigs.add(common.h64(('heap', k)))
    res.count('heap_states_two_free_chunks', sysm.two_free_states)
    res.count('heap_max_depth', stats['max_depth'])
    seenk = set()
    for hist, what, msg in viols:
        key = f'C08/heap/{what}'
        if key in seenk: continue
        seenk.add(key)
        res.violation(key, {'kind': 'heap', 'history': hist}, f'after {hist}: {msg}')
    res.samples.append({'kind': 'heap', 'sizes': list(sizes), 'maxlive': maxlive, 'depth': depth,
                        'example_history': [['alloc', 2], ['alloc', 1], ['free', 0], ['alloc', 1], ['free', 2]]})


def replay_heap(case):
    sysm = HeapSystem([1, 2, 3], 99)
    h, m = sysm.initial(), sysm.model_initial()
    out = []
    for i, op in enumerate(case['history']):
        try:
            r = sysm.apply(h, op)
        except Exception as ex:
            out.append({'key': f'C08/heap/exception-{type(ex).__name__}', 'case': case, 'msg': f'step {i} {op} raised {ex!r}'}); break
        for what, msg in sysm.check(h, op, r, m):
            out.append({'key': f'C08/heap/{what}', 'case': case, 'msg': f'step {i} {op}: {msg}'})
        if out: break
    return out


# ------------------------------------------------------------------ memory map (E1)

def root_stems(circuit):
    """line index -> index of the line at the root of its fork chain (own traversal).  A fork that is a port is the root of
    its branches even if it has a driver (bench-style output that is read inside the circuit): the simulators assign the
    port, so its branches carry the assigned value and not the value of the line that drives the port."""
    stem = {}
    ports = {id(n) for n in circuit.io_nodes}
    for l in circuit.lines:
        x = l
        while x.driver.kind == '__fork__' and id(x.driver) not in ports and len(x.driver.ins) > 0 and x.driver.ins[0] is not None:
            x = x.driver.ins[0]
        stem[l.index] = x.index
    return stem


COMPLEX_T0 = None


def scratch_slots(so, opcode):
    """scratch slots the multi-valued logic simulator writes while evaluating an op of this kind"""
    global COMPLEX_T0
    if COMPLEX_T0 is None:
        from kyupy import sim as ksim
        two = [ksim.AO22, ksim.AOI22, ksim.OA22, ksim.OAI22, ksim.MUX21]
        one = [ksim.AO21, ksim.AOI21, ksim.OA21, ksim.OAI21, ksim.AO211, ksim.AOI211, ksim.OA211, ksim.OAI211]
        COMPLEX_T0 = ({int(np.int32(np.uint16(x))) if False else int(np.array(x, dtype=np.uint16).astype(np.int32)) for x in one},
                      {int(np.array(x, dtype=np.uint16).astype(np.int32)) for x in two})
    one, two = COMPLEX_T0
    oc = int(opcode)
    if oc in two: return [so.tmp_idx, so.tmp2_idx]
    if oc in one: return [so.tmp_idx]
    return []


def check_map(ops_obj, circuit, strip, logic_layout=False, parallel=False):
    """Ownership interpretation of the published schedule.  Returns list of (what, msg).

    Every memory cell carries the id of the signal whose data it currently holds.  An op checks that each
    operand region is owned by the operand signal, then takes ownership of its output region (and of the
    scratch regions it uses).  sequential mode: ops in published order (C08).  parallel mode: all reads of a
    level see the state at the level start and the writes of a level must be disjoint from each other and
    from every region read in that level (C07)."""
    so = ops_obj
    v = []
    nl = len(circuit.lines)
    c_locs, c_caps = np.asarray(so.c_locs), np.asarray(so.c_caps)
    c_len = int(so.c_len)
    stems = root_stems(circuit) if strip else {}
    def canon(i):
        i = int(i)
        return stems.get(i, i) if i < nl else i
    def region(i):
        return int(c_locs[i]), int(c_locs[i]) + int(c_caps[i])
    owner = np.full(c_len, -1, dtype=np.int64)
    protected = np.zeros(c_len, dtype=bool)   # cells that must never be overwritten by an op: inputs and the constant
    def claim(i, prot=False):
        a, b = region(i)
        if a < 0 or b > c_len or b <= a:
            v.append(('bounds', f'region of slot {i} = [{a},{b}) outside [0,{c_len})')); return
        owner[a:b] = canon(i)
        if prot: protected[a:b] = True
    claim(so.zero_idx, prot=True)
    snodes = circuit.s_nodes
    for i, n in enumerate(snodes):
        if len(n.outs) > 0:
            if c_locs[so.ppi_offset + i] < 0: v.append(('ppi-missing', f'interface node {i} has outputs but no input slot'))
            else:
                a, b = region(so.ppi_offset + i)
                if np.any(owner[a:b] != -1): v.append(('overlap', f'input slot of interface node {i} overlaps slot {set(owner[a:b].tolist())}'))
                claim(so.ppi_offset + i, prot=True)
    for sp in (so.tmp_idx, so.tmp2_idx):
        a, b = region(sp)
        if a < 0 or b > c_len or b <= a: v.append(('bounds', f'scratch slot {sp} region [{a},{b})'))
    if strip:   # stripped branches alias their root stem exactly
        for l in circuit.lines:
            s = stems[l.index]
            if s != l.index and (c_locs[l.index] != c_locs[s] or c_caps[l.index] != c_caps[s]):
                v.append(('stem-alias', f'branch line {l.index} at {region(l.index)} but its stem {s} at {region(s)}'))
    ops = np.asarray(so.ops)

    def do_reads(op, lv, reads):
        o = int(op[1])
        for x in op[2:6]:
            x = int(x)
            ra, rb = region(x)
            if ra < 0 or rb > c_len: v.append(('bounds', f'operand slot {x} region [{ra},{rb})')); continue
            own = owner[ra:rb]
            if np.any(own != canon(x)):
                v.append(('stale-operand', f'level {lv}: op writing slot {o} reads slot {x} at [{ra},{rb}) but that memory holds {sorted(set(own.tolist()))} '
                                           f'(operand not produced before, or overwritten while live)'))
            reads.append((ra, rb, x))

    def op_writes(op):
        w = []
        if logic_layout and not parallel:
            w += [(sp, True) for sp in scratch_slots(so, op[0])]
        w.append((int(op[1]), int(op[1]) == so.tmp_idx))
        return w

    def do_write(slot, lv):
        wa, wb = region(slot)
        if wa < 0 or wb > c_len: v.append(('bounds', f'output slot {slot} region [{wa},{wb})')); return None
        if np.any(protected[wa:wb]):
            v.append(('overwrite-protected', f'level {lv}: write to slot {slot} region [{wa},{wb}) overwrites an input slot or the constant'))
        owner[wa:wb] = canon(slot)
        return (wa, wb, slot)

    for lv, (a0, a1) in enumerate(zip(so.level_starts, so.level_stops)):
        if not parallel:
            for op in ops[a0:a1]:
                rd = []
                do_reads(op, lv, rd)
                for slot, _ in op_writes(op):
                    w = do_write(slot, lv)
                    if w is None: continue
                    for (ra, rb, x) in rd:   # the kernels read their operands while they write the result
                        if w[0] < rb and ra < w[1]:
                            v.append(('self-alias', f'level {lv}: op writes slot {slot} region [{w[0]},{w[1]}) overlapping its own operand {x} [{ra},{rb})'))
        else:
            reads, writes = [], []
            for op in ops[a0:a1]: do_reads(op, lv, reads)
            for op in ops[a0:a1]:
                for slot, is_scratch in op_writes(op):
                    w = do_write(slot, lv)
                    if w is None: continue
                    wa, wb, _ = w
                    for (xa, xb, p, p_scr) in writes:
                        if wa < xb and xa < wb and not (p_scr and is_scratch):
                            v.append(('write-write', f'level {lv}: slots {p} and {slot} written in the same level overlap: [{xa},{xb}) [{wa},{wb})'))
                    for (ra, rb, x) in reads:
                        if wa < rb and ra < wb:
                            v.append(('write-read', f'level {lv}: slot {slot} region [{wa},{wb}) written in the level overlaps operand {x} [{ra},{rb}) read in the same level'))
                    writes.append((wa, wb, slot, is_scratch))
    # results intact when read; output slots alias the captured line
    for i, n in enumerate(snodes):
        if len(n.ins) > 0 and n.ins[0] is not None:
            li = n.ins[0].index
            if c_locs[so.ppo_offset + i] != c_locs[li] or c_caps[so.ppo_offset + i] != c_caps[li]:
                v.append(('ppo-alias', f'output slot of interface node {i} at {region(so.ppo_offset + i)} but its line {li} at {region(li)}'))
            a, b = region(li)
            if a >= 0 and b <= c_len and np.any(owner[a:b] != canon(li)):
                v.append(('captured-overwritten', f'line {li} captured by interface node {i} was overwritten: memory holds {sorted(set(owner[a:b].tolist()))}'))
        if len(n.outs) > 0 and c_locs[so.ppi_offset + i] >= 0:
            a, b = region(so.ppi_offset + i)
            if np.any(owner[a:b] != so.ppi_offset + i): v.append(('input-overwritten', f'input slot of interface node {i} overwritten'))
    a, b = region(so.zero_idx)
    if np.any(owner[a:b] != so.zero_idx): v.append(('zero-overwritten', 'constant-zero slot overwritten'))
    used = int(max([region(i)[1] for i in range(len(c_locs)) if c_locs[i] >= 0] + [0]))
    if used > c_len: v.append(('bounds', f'highest region end {used} > c_len {c_len}'))
    return v


def cap_vectors(nlines, tier, idx):
    yield 'u4', [4] * (nlines + 3)
    yield 'u8', [8] * (nlines + 3)
    yield 'u12', [12] * (nlines + 3)
    if nlines <= (8 if tier == 'thorough' else 5):
        for bits in itertools.product((4, 8), repeat=nlines):
            yield 'v' + ''.join('1' if x == 8 else '0' for x in bits), list(bits) + [4, 4, 4]
    else:
        for i in range(nlines):
            if tier == 'thorough' or i % 4 == idx % 4:
                c = [4] * (nlines + 3); c[i] = 12
                yield f'h{i}', c
        for i in range(0, nlines - 1, 2):
            c = [4] * (nlines + 3); c[i] = 12; c[i + 1] = 8
            yield f'hh{i}', c


def map_case(res, case):
    from kyupy.sim import SimOps
    nl = NL.from_json(case['nl'])
    res.evals += 1
    try:
        b = build(nl, STYLES[case['style']])
        c = b.circuit
        strip = case['strip']
        so = SimOps(c, c_caps=case['caps'], c_caps_min=case['cmin'], c_reuse=case['reuse'], strip_forks=strip)
        vs = check_map(so, c, strip, logic_layout=(case['cmin'] == 1))
        key0 = f'C08/map/{common.h64(case["nl"]):016x}/s{case["style"]}{"r" if case["reuse"] else ""}{"f" if strip else ""}/{case["capname"]}'
        seen = set()
        for what, msg in vs:
            if what in seen: continue
            seen.add(what)
            res.violation(f'{key0}/{what}', case, msg + f' {nl}')
        res.sig(('map', case['nl'], case['style'], case['reuse'], strip, case['capname'], np.asarray(so.c_locs).tobytes()))
        if case['reuse']:
            total = int(sum(int(x) for x in np.asarray(so.c_caps)[:len(c.lines)]))
            if so.c_len < total + 12: res.count('maps_with_actual_reuse')
        if any(len(x.outs) == 0 or x.outs[0] is None for x in c.nodes if x.kind not in ('__fork__', 'input', 'output') and 'dff' not in x.kind and 'latch' not in x.kind):
            res.count('maps_with_dangling_gate')
        res.states += 1; res.transitions += len(so.ops); res.validated += len(so.ops)
    except Exception as ex:
        res.violation(f'C08/map/{common.h64(case["nl"]):016x}/exception-{type(ex).__name__}', case, traceback.format_exc()[-1500:])


def run_maps(res, task):
    _, fam, sl, nsl, tier, seed = task
    if fam == 't2': g = F.take_slice(F.t2(), nsl, sl)
    elif fam == 't1': g = F.take_slice(F.t1(), nsl, sl)
    elif fam == 't4': g = F.t4()
    elif fam == 't5': g = F.t5()
    else:
        g = F.t3_shard(fam[1], fam[2], fam[3], extra_tap=True)
    for idx, nl in enumerate(g):
        if tier == 'quick' and fam in ('t1', 't2') and idx % 8 != seed % 8: continue
        if tier == 'quick' and isinstance(fam, tuple) and idx % 3 != seed % 3: continue
        si = ((idx // 8 if fam in ('t1', 't2') else idx // 3 if isinstance(fam, tuple) else idx) if tier == 'quick' else idx) % len(STYLES)
        b = build(nl, STYLES[si])
        nlines = len(b.circuit.lines)
        for capname, caps in cap_vectors(nlines, tier, idx):
            for reuse in (False, True):
                for strip in (False, True):
                    map_case(res, {'kind': 'map', 'nl': nl.to_json(), 'style': si, 'caps': caps, 'capname': capname, 'cmin': 4,
                                   'reuse': reuse, 'strip': strip})
        # logic simulator layout: capacity 1 everywhere
        for reuse in (False, True):
            for strip in (False, True):
                map_case(res, {'kind': 'map', 'nl': nl.to_json(), 'style': si, 'caps': 1, 'capname': 'logic1', 'cmin': 1, 'reuse': reuse, 'strip': strip})
    if not res.samples:
        res.samples.append({'kind': 'map', 'family': str(fam)})


# ------------------------------------------------------------------ driver

def tasks(tier, seed):
    t = []
    if tier == 'quick':
        t += [('heap', (1, 2, 3), 6, 10), ('heap', (4, 8, 12), 5, 8), ('heap', (1, 2, 3, 4), 4, 7), ('heap', (1, 2), 7, 12)]
    else:
        t += [('heap', (1, 2, 3), 7, 12), ('heap', (4, 8, 12), 6, 10), ('heap', (1, 2, 3, 4), 5, 9), ('heap', (1, 2), 8, 15), ('heap', (1, 3), 7, 12)]
    for sl in range(8): t.append(('maps', 't2', sl, 8, tier, seed))
    for sl in range(4): t.append(('maps', 't1', sl, 4, tier, seed))
    t.append(('maps', 't4', 0, 1, tier, seed))
    t.append(('maps', 't5', 0, 1, tier, seed))
    shards = [(1, 1, F.T3_KINDS_QUICK, 2), (0, 2, F.T3_KINDS_QUICK, 2)] if tier == 'quick' else \
             [(1, 1, F.T3_KINDS, 2), (0, 2, F.T3_KINDS_QUICK, 2), (1, 2, ['NAND2', 'INV1', 'MUX21'], 2), (0, 3, ['NAND2', 'INV1'], 2)]
    for ns, ng, kinds, nin in shards:
        for sk, gk in F.t3_shards(ns, ng, kinds):
            t.append(('maps', ('t3', nin, sk, gk), 0, 1, tier, seed))
    t.append(('tlc', tier))
    if tier == 'thorough': t = F.slice_t3_tasks(t, 1500)
    return t


def run_task(task):
    res = common.Result()
    try:
        if task[0] == 'heap': run_heap(res, task)
        elif task[0] == 'maps': run_maps(res, task)
        elif task[0] == 'tlc':
            from checks import c08_tlc
            c08_tlc.run(res, c08_tlc.CONFIGS if task[1] == 'thorough' else [('{1, 2}', 4, 7)])
    except Exception as ex:
        res.violation(f'C08/{task[0]}/exception-{type(ex).__name__}', {'kind': 'task', 'task': repr(task)}, traceback.format_exc()[-1500:])
    return res


def replay(case):
    common.setup_kyupy()
    if case['kind'] == 'heap': return replay_heap(case)
    if case['kind'] == 'map':
        res = common.Result(); map_case(res, case); return res.violations
    return []


def finish(agg, tier):
    need = ['heap_states_two_free_chunks', 'maps_with_actual_reuse', 'maps_with_dangling_gate']
    missing = [k for k in need if not agg.counters.get(k)]
    if missing: raise common.HarnessError(f'vacuity guard: {missing} zero')
    return {}
