"""C16 - the fault-injection callback sees and controls every evaluated signal.

E1: circuits x logics (2/4/8) x ALL stimuli x every injected signal x injected values.
"""
import operator
import traceback

import numpy as np

from mc import common, families as F, lsim, ref
from mc.netlist import NL, STYLES, build
from checks.c02 import lanes, fmt

PROP = 'C16'
LEVEL = 'exploration'
RULE = ('cases = netlist (T1 slice, T2 shared-input, T3 small with state elements, T4) x build style x logic m in {2,4,8} x strip_forks; '
        'each case runs all stimuli (2^n / 4^n / 8^n lanes) with (a) a recording callback, (b) a no-op callback, (c) for EVERY evaluated line and '
        'each injected value (all-0, all-1, complement, X) an overwriting callback; oracle = reference evaluation of the graph with that line cut '
        'and driven by the injected values; distinct_nontrivial = distinct (netlist, m, line, value, outputs) signatures where the injection changed an output')
ASSUMPTIONS = ['the first callback argument may be a Line or a line index (operator.index is applied)',
               'callbacks are passed as plain functions and (for half of the netlists) as callable objects whose truth value is False',
               'a gate without output line evaluates into scratch memory, which is not a signal: the callback may or may not be invoked for it',
               'memory reuse off (intermediate values stay addressable); X and - identified as in C02']


def tasks(tier, seed):
    t = []
    for sl in range(16): t.append(('t1', sl, 16, tier, seed))
    for sl in range(16): t.append(('t2s', sl, 16, tier, seed))
    t.append(('t4', 0, 1, tier, seed))
    t.append(('consts', 0, 1, tier, seed))
    for sk, gk in F.t3_shards(1, 1, F.T3_KINDS_QUICK): t.append(('t3', 2, sk, gk, tier, seed))
    if tier == 'thorough':
        for sk, gk in F.t3_shards(1, 2, F.T3_KINDS_QUICK): t.append(('t3', 1, sk, gk, tier, seed))
        for sk, gk in F.t3_shards(0, 2, F.T3_KINDS_QUICK): t.append(('t3', 2, sk, gk, tier, seed))
        t = F.slice_t3_tasks(t, 600)
    return t


def gen(task):
    fam, tier, seed = task[0], task[-2], task[-1]
    if fam == 't1':
        g = F.take_slice(F.t1(), task[2], task[1])
        return g if tier == 'thorough' else F.take_slice(g, 8, seed % 8)
    if fam == 't2s':
        g = F.take_slice(F.t2(shared=True), task[2], task[1])
        return g if tier == 'thorough' else F.take_slice(g, 6, seed % 6)
    if fam == 't4': return F.t4()
    if fam == 't3': return F.t3_shard(task[1], task[2], task[3])
    if fam == 'consts': return consts()
    raise KeyError(fam)


def consts():
    """several constant cells in one circuit (they are evaluated like gates and offered to the callback), feeding gates and ports"""
    for k0, k0b, k1 in (('__const0__', 'tiel', '__const1__'), ('tiel', '__const0__', 'tieh'), ('__const0__', '__const0__', '__const1__')):
        yield NL(2, [], [(k0, ()), (k0b, ()), (k1, ()), ('OR2', ('i0', 'g0')), ('AND2', ('i0', 'g2')), ('XOR2', ('i0', 'g1')), ('OR2', ('i1', 'g0'))], ['g3', 'g4', 'g5', 'g6'])
        yield NL(1, [('dff', 'g1')], [(k1, ()), (k0, ()), ('NAND2', ('g0', 'q0')), ('NOR2', ('g1', 'i0'))], ['g2', 'g3', 'g0'])


def run_task(task):
    res = common.Result()
    for idx, nl in enumerate(gen(task)):
        for m in (2, 4, 8):
            check_case(res, {'nl': nl.to_json(), 'style': idx % len(STYLES), 'm': m, 'strip': bool((idx // len(STYLES)) % 2), 'fam': task[0]})
    return res


def replay(case):
    common.setup_kyupy()
    res = common.Result()
    check_case(res, case)
    return res.violations


def _key(case, what):
    return f'C16/{what}/m{case["m"]}/{common.h64(case["nl"]):016x}/s{case["style"]}{"f" if case["strip"] else ""}'


def write_codes(view, codes):
    """write value codes into a bit-parallel view of shape (mdim, nbytes)"""
    nb = view.shape[-1]
    for b in range(view.shape[0]):
        view[b] = lsim.pack((codes >> b) & 1, nb)
    if view.shape[0] == 1:
        view[0] = lsim.pack(codes & 1, nb)


def view_codes(view, n):
    c = np.zeros(n, dtype=np.uint8)
    for b in range(view.shape[0]):
        c |= lsim.unpack(view[b], n) << b
    if view.shape[0] == 1: c = c * 3
    return c


def check_case(res, case):
    from kyupy.logic_sim import LogicSim
    nl = NL.from_json(case['nl'])
    m = case['m']
    res.evals += 1
    try:
        b = build(nl, STYLES[case['style']])
        c = b.circuit
        strip = case['strip']
        ipos, opos, spos = b.s_pos()
        nI, nS = nl.n_in, len(nl.states)
        nv = nI + nS
        A = {2: 2, 4: 4, 8: 8}[m]
        vals = lanes(nv, A)
        if m == 2: vals = [a * 3 for a in vals]
        n = A ** nv
        snodes = c.s_nodes
        assign = {}
        for k in range(nI): assign[snodes[ipos[k]].index] = vals[k]
        for k in range(nS): assign[snodes[spos[k]].index] = vals[nI + k]
        inv = lambda v: ref.table8('inv', 1)[v]
        zero = np.zeros(n, dtype=np.uint8)
        gate = lambda kind, pins: ref.gate8(kind, pins, shape=(n,))
        obs = [(f'out{j}', opos[j], b.out_nodes[j].ins[0].index) for j in range(len(nl.outs))] + \
              [(f'st{k}', spos[k], b.st_nodes[k].ins[0].index) for k in range(nS)]

        class FalsyCallable:
            """a legal callable whose truth value is False (e.g. an empty container with __call__)"""
            def __init__(self, f): self.f = f
            def __call__(self, *a): return self.f(*a)
            def __bool__(self): return False
            def __len__(self): return 0
        falsy = bool(common.h64(case['nl']) & 1)

        def run(cb):
            if cb is not None and falsy: cb = FalsyCallable(cb)
            sim = LogicSim(c, sims=n, m=m, strip_forks=strip)
            for k in range(nI): lsim.assign_codes(sim, ipos[k], vals[k])
            for k in range(nS): lsim.assign_codes(sim, spos[k], vals[nI + k])
            sim.s_to_c()
            sim.c_prop(inject_cb=cb) if cb is not None else sim.c_prop()
            sim.c_to_s()
            out = {}
            for name, pos, _ in obs:
                g = lsim.read_codes(sim, 1, pos, n, sim.mdim)
                out[name] = g * 3 if m == 2 else g
            return sim, out

        sim0, base = run(None)
        nlines = len(c.lines)
        exp_seq = [int(o) for o in sim0.ops[:, 1] if int(o) < nlines]
        ref_vals = ref.graph_eval(c, assign, gate, inv, zero)
        # (a) recording callback
        seq, seen_vals, wr_ok = [], {}, []
        def rec(line, view):
            li = operator.index(line)
            seq.append(li)
            if li < nlines:
                seen_vals[li] = view_codes(view, n)
        simr, outr = run(rec)
        seq_lines = [x for x in seq if x < nlines]
        if seq_lines != exp_seq:
            res.violation(_key(case, 'sequence'), case, f'callback sequence {seq_lines} expected {exp_seq} (evaluated lines in op order) {nl}')
        for li, got in seen_vals.items():
            if not np.all(ref.same_mod_unknown(got, ref_vals[li])):
                i = int(np.flatnonzero(~ref.same_mod_unknown(got, ref_vals[li]))[0])
                res.violation(_key(case, f'value-l{li}'), case, f'callback for line {li} received {ref.CHARS[int(got[i]) & 7]} in lane {i}, freshly computed value is {ref.CHARS[int(ref_vals[li][i])]} {nl}')
        # (b) no-op callback changes nothing
        for name in base:
            if not np.array_equal(base[name], outr[name]):
                res.violation(_key(case, f'noop-{name}'), case, f'{name} differs between run without callback and run with a callback that does nothing {nl}')
        # (c) overwrite
        inj_values = ['zero', 'one', 'compl'] + (['x'] if m >= 4 else [])
        for li in exp_seq:
            for iv in inj_values:
                if iv == 'zero': newv = np.zeros(n, dtype=np.uint8)
                elif iv == 'one': newv = np.full(n, 3, dtype=np.uint8)
                elif iv == 'x': newv = np.full(n, 1, dtype=np.uint8)
                else: newv = ref.table8('inv', 1)[ref_vals[li]]
                state = {'n': 0}
                def inj(line, view, li=li, newv=newv, state=state):
                    if operator.index(line) == li:
                        write_codes(view, newv)
                        state['n'] += 1
                simi, outi = run(inj)
                res.evals += 1
                res.count('injections')
                if state['n'] != 1:
                    res.violation(_key(case, f'inject-count-l{li}'), case, f'line {li} was offered to the callback {state["n"]} times {nl}')
                    continue
                # the written values are what the simulator holds for that line
                held = lsim.read_c_codes(simi, li, n)
                if m == 2: held = held * 3
                # (memory reuse is off, so the line's memory still holds the injected value)
                if not np.all(ref.same_mod_unknown(held, newv)):
                    res.violation(_key(case, f'inject-not-writable-l{li}'), case, f'values written through the callback view of line {li} are not what the simulator holds {nl}')
                exp_vals = ref.graph_eval(c, assign, gate, inv, zero, override={li: newv})
                changed = False
                for name, pos, oline in obs:
                    exp = exp_vals[oline]
                    if not np.all(ref.same_mod_unknown(outi[name], exp)):
                        i = int(np.flatnonzero(~ref.same_mod_unknown(outi[name], exp))[0])
                        res.violation(_key(case, f'inject-l{li}-{iv}-{name}'), case,
                                      f'injecting {iv} at line {li}: {name} lane {i} inputs {fmt([a[i] for a in vals])} got {ref.CHARS[int(outi[name][i]) & 7]} expected {ref.CHARS[int(exp[i])]} {nl}')
                    if not np.array_equal(outi[name], base[name]): changed = True
                # the overwrite belongs to that propagation only: a following plain propagation on the same object gives the plain results
                if (li + len(iv)) % 3 == 0 or case.get('fam') == 'consts':
                    for k in range(nI): lsim.assign_codes(simi, ipos[k], vals[k])
                    for k in range(nS): lsim.assign_codes(simi, spos[k], vals[nI + k])
                    simi.s_to_c(); simi.c_prop(); simi.c_to_s()
                    for name, pos, _ in obs:
                        g = lsim.read_codes(simi, 1, pos, n, simi.mdim)
                        if m == 2: g = g * 3
                        if not np.array_equal(g, base[name]):
                            res.violation(_key(case, f'after-inject-l{li}-{iv}-{name}'), case, f'a plain propagation after one that injected {iv} at line {li} on the same simulator: {name} differs from the plain result {nl}')
                    res.count('plain_after_injection')
                if changed:
                    res.count('injections_changing_output')
                    res.sig((case['nl'], m, li, iv, tuple(outi[k].tobytes() for k in sorted(outi))))
        # (d) the same callback interface through cycle(): once per evaluated signal and cycle, in the same order, and a callback that
        #     does nothing leaves the multi-cycle result untouched; (e) with memory reuse the callback still sees every freshly computed value
        def multi(cb, reuse=False, cycles=2):
            sim = LogicSim(c, sims=n, m=m, strip_forks=strip, c_reuse=reuse)
            for k in range(nI): lsim.assign_codes(sim, ipos[k], vals[k])
            for k in range(nS): lsim.assign_codes(sim, spos[k], vals[nI + k])
            if cb is None: sim.cycle(cycles)
            else: sim.cycle(cycles, inject_cb=cb)
            return np.array(sim.s, copy=True)
        seq2 = []
        s_plain = multi(None)
        s_cb = multi(lambda line, view: seq2.append(operator.index(line)))
        if [x for x in seq2 if x < nlines] != exp_seq * 2:
            res.violation(_key(case, 'cycle-sequence'), case, f'cycle(2, inject_cb): callback sequence {[x for x in seq2 if x < nlines]} expected {exp_seq * 2} {nl}')
        if not np.array_equal(s_plain, s_cb):
            res.violation(_key(case, 'cycle-noop'), case, f'cycle(2) with a callback that does nothing differs from cycle(2) without callback {nl}')
        seq3, seen3 = [], {}
        def rec3(line, view):
            li = operator.index(line)
            seq3.append(li)
            if li < nlines: seen3[li] = view_codes(view, n)
        s_reuse = multi(rec3, reuse=True, cycles=1)
        s_one = multi(None, cycles=1)
        if sorted(x for x in seq3 if x < nlines) != sorted(exp_seq):
            res.violation(_key(case, 'reuse-sequence'), case, f'c_reuse=True: callback offered lines {sorted(x for x in seq3 if x < nlines)} expected {sorted(exp_seq)} {nl}')
        for li, got in seen3.items():
            if not np.all(ref.same_mod_unknown(got, ref_vals[li])):
                res.violation(_key(case, f'reuse-value-l{li}'), case, f'c_reuse=True: callback for line {li} did not receive the freshly computed value {nl}')
        rows = [pos for _, pos, _ in obs]
        if rows and not np.array_equal(s_reuse[:, rows], s_one[:, rows]):
            res.violation(_key(case, 'reuse-noop'), case, f'c_reuse=True with a recording callback: port/state results differ from the plain run {nl}')
        res.count('cycle_callback_runs')
        if len(res.samples) < 2: res.samples.append(case)
    except Exception as ex:
        res.violation(_key(case, 'exception-' + type(ex).__name__), case, traceback.format_exc()[-1500:])


def finish(agg, tier):
    if not agg.counters.get('injections_changing_output'):
        raise common.HarnessError('vacuity guard: no injection changed any output')
    return {}
