------------------------------- MODULE Heap -------------------------------
(* Model of kyupy.sim.Heap: first-fit-lowest-address allocator with split,    *)
(* two-sided coalescing and tail trim.  The variable hist records the action   *)
(* sequence, so every reachable state carries the trace that is replayed on    *)
(* the real implementation (checks/c08_tlc.py).                                *)
EXTENDS Naturals, Sequences, FiniteSets
CONSTANTS Sizes, MaxLive, MaxDepth
VARIABLES mem, maxsz, hist
\* mem: sequence of <<start, size, free>> (free in {0,1}) in address order

Cur == IF Len(mem) = 0 THEN 0 ELSE mem[Len(mem)][1] + mem[Len(mem)][2]
Live == {i \in 1..Len(mem) : mem[i][3] = 0}
Fit(s) == {i \in 1..Len(mem) : mem[i][3] = 1 /\ mem[i][2] >= s}
First(S) == CHOOSE i \in S : \A j \in S : i <= j

RECURSIVE Coalesce(_)
Coalesce(s) == IF Len(s) < 2 THEN s
               ELSE IF s[1][3] = 1 /\ s[2][3] = 1
                    THEN Coalesce(<< <<s[1][1], s[1][2] + s[2][2], 1>> >> \o SubSeq(s, 3, Len(s)))
                    ELSE << s[1] >> \o Coalesce(SubSeq(s, 2, Len(s)))
Trim(s) == IF Len(s) > 0 /\ s[Len(s)][3] = 1 THEN SubSeq(s, 1, Len(s) - 1) ELSE s

Init == mem = << >> /\ maxsz = 0 /\ hist = << >>

Alloc(s) ==
  /\ Cardinality(Live) < MaxLive /\ Len(hist) < MaxDepth
  /\ IF Fit(s) = {}
     THEN /\ mem' = Append(mem, <<Cur, s, 0>>)
          /\ maxsz' = IF Cur + s > maxsz THEN Cur + s ELSE maxsz
          /\ hist' = Append(hist, <<"alloc", s, Cur>>)
     ELSE LET i == First(Fit(s)) IN
          /\ mem' = IF mem[i][2] = s
                    THEN [mem EXCEPT ![i] = <<mem[i][1], s, 0>>]
                    ELSE SubSeq(mem, 1, i - 1) \o << <<mem[i][1], s, 0>>, <<mem[i][1] + s, mem[i][2] - s, 1>> >> \o SubSeq(mem, i + 1, Len(mem))
          /\ maxsz' = maxsz
          /\ hist' = Append(hist, <<"alloc", s, mem[i][1]>>)

Free(i) ==
  /\ i \in Live /\ Len(hist) < MaxDepth
  /\ mem' = Trim(Coalesce([mem EXCEPT ![i] = <<mem[i][1], mem[i][2], 1>>]))
  /\ maxsz' = maxsz
  /\ hist' = Append(hist, <<"free", mem[i][1], 0>>)

Next == (\E s \in Sizes : Alloc(s)) \/ (\E i \in 1..Len(mem) : Free(i))
Spec == Init /\ [][Next]_<<mem, maxsz, hist>>

Tiling == \A i \in 1..Len(mem) : mem[i][2] > 0 /\ mem[i][1] = (IF i = 1 THEN 0 ELSE mem[i-1][1] + mem[i-1][2])
NoAdjacentFree == \A i \in 1..(Len(mem) - 1) : ~(mem[i][3] = 1 /\ mem[i+1][3] = 1)
NoTrailingFree == Len(mem) = 0 \/ mem[Len(mem)][3] = 0
HighWater == maxsz >= Cur
\* an allocation never returns a region overlapping a chunk that was live before it
NoOverlap == Len(hist) = 0 \/ hist[Len(hist)][1] # "alloc" \/
             \A i \in 1..Len(mem) : mem[i][3] = 0 =>
                (mem[i][1] = hist[Len(hist)][3] \/ mem[i][1] + mem[i][2] <= hist[Len(hist)][3] \/ hist[Len(hist)][3] + hist[Len(hist)][2] <= mem[i][1])
=============================================================================
