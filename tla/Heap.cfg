CONSTANTS
  Sizes = {1, 2}
  MaxLive = 4
  MaxDepth = 7
SPECIFICATION Spec
INVARIANTS Tiling NoAdjacentFree NoTrailingFree HighWater NoOverlap
